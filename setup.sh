#!/bin/sh
# Build the overlay venv used by every check: /venv's interpreter and packages
# (boltons is an editable install resolving to /repo) + CrossHair, z3 and the cvc5 1.4
# Python wheel (much stronger on QF_FP than the 1.0 binary) from the offline wheelhouse.  Idempotent; no network.
set -e
cd "$(dirname "$0")"
V=.venv
if [ ! -x "$V/bin/python" ] || ! "$V/bin/python" -c 'import crosshair, z3, cvc5' 2>/dev/null; then
    rm -rf "$V"
    /venv/bin/python -m venv "$V"
    SP=$("$V/bin/python" -c 'import sysconfig; print(sysconfig.get_paths()["purelib"])')
    echo "import site; site.addsitedir('/venv/lib/python3.12/site-packages')" > "$SP/_base.pth"
    PIP_NO_INDEX=1 "$V/bin/pip" install -q --no-index --find-links /opt/veriftools/wheels crosshair-tool z3-solver cvc5 >/dev/null
fi
"$V/bin/python" -c 'import crosshair, z3, cvc5, boltons; print("venv ok", z3.get_version_string(), "cvc5", cvc5.__version__, boltons.__file__)'

#!/usr/bin/env python3
"""Regenerate MANIFEST.json from the table below (keeps it schema-valid while checks are added)."""
import json, os, sys
ROOT = os.path.dirname(os.path.dirname(os.path.abspath(__file__)))
E1 = 'E1 CrossHair 0.0.110 + z3 5.1: per-path symbolic execution of the real boltons functions'
CHECKS = {
    'C01': dict(
        technique='bounded symbolic execution (CrossHair/z3) of the real OrderedMultiDict methods against a pair-list model: '
                  'arbitrary reachable pre-state + one arbitrary operation; key equality pattern and (sym mode) values are solver variables',
        text='For each of 23 operations (with list/tuple/one-shot-iterator/mapping/OMD argument forms) every feasible key-equality '
             'pattern of <=3 pre-state pairs and <=2 argument pairs is explored to exhaustion; after the operation every read of the '
             'statement (items/keys/values multi on/off, get/getlist/[]/in/len/iter/reversed/todict/counts/==/!=; inverted/sorted/'
             'sortedvalues/repr in a separate obligation) is compared with the model. A second family keeps the values as unbounded '
             'symbolic ints so that value flow is decided by z3. Bounded model checking, not a proof.',
        note='Trusted: CrossHair path exhaustion, z3, the pair-list reference model. Outside: >3 (quick) / >4 (thorough) pre-state pairs, >2 operations, FastIterOrderedMultiDict.',
        ref='C01'),
    'C02': dict(
        technique='bounded symbolic execution (CrossHair/z3) of the real LRI/LRU methods against a recency-list model with counters: '
                  'arbitrary reachable pre-state (symbolic capacity, key-equality pattern) + one arbitrary operation',
        text='For LRI and LRU, with and without on_miss, capacity 1..3 and pre-states of 0..4 assignments (+ optional removal) every feasible '
             'key-equality pattern is explored to exhaustion for each of 18 operations; contents, capacity, the three counters, on_miss calls, '
             'the ring, and the eviction order observed through the public API (inserting fresh keys) are compared with the reference cache; '
             'copy() is checked for equal contents/order, independence and an untouched source. Bounded model checking.',
        note='Trusted: CrossHair path exhaustion, z3, the reference cache. Outside: max_size > 3 (quick) / 4 (thorough), longer histories.',
        ref='C02'),
    'C03': dict(
        engine='E3',
        technique='source-to-coroutine transformation of the real LRI/LRU methods (yield before every shared-state access, model of the re-entrant '
                  'lock) executed under CrossHair/z3 with a SYMBOLIC schedule (first thread + switch points over numbered choice points); '
                  'linearizability oracle on the untransformed class; counterexample schedules replayed on real threads under sys.settrace',
        text='Two logical threads each run one operation - in a few obligations two in program order on one thread, and caches with an on_miss loader returning a fresh value per call - ([] =, [], del, pop, popitem, clear, setdefault, update, ==, get; every operation paired '
             'with [] = and with itself on LRU, [] = pairs also on LRI) on a shared cache of capacity 1..2 holding 0..2 entries, every key-equality '
             'pattern; for every schedule with at most 2 pre-emptions at any choice points the results, final contents, eviction order (probed by '
             'inserting fresh keys), len <= max_size and usability equal one sequential order. Each run first checks the transformed classes '
             'against the originals on 18000 sequential steps and refutes an in-memory mutant (lock removed from __setitem__). Bounded model checking of schedules.',
        note='Trusted: the transformer (self-checked every run), yield placement at statements touching shared state, GIL atomicity of single dict operations, CrossHair/z3. '
             'Outside: >2 threads, >1 operation per thread (quick), >2-3 pre-emptions, copy/iteration concurrent with writers, counters, free-threaded builds.',
        ref='C03'),
    'C04': dict(
        technique='bounded symbolic execution (CrossHair/z3) of the real AtomicSaver code over an in-memory POSIX/durability model: crash point, '
                  'lost un-synced suffix, written byte strings and buffer limit are solver variables',
        text='For 0..3 writes of symbolic byte strings (and text mode), destination present/absent, overwrite on/off, part_file given or not, the '
             'process is killed in every ticked file-system / file-object call and after the with-block; for an arbitrary (unbounded symbolic) '
             'amount of lost un-synced data the destination holds exactly the old or exactly the complete new content; at publication the part '
             'inode was written, flushed, fsync-ed and closed; normal exit leaves the new content and no part file; two savers back to back. '
             'All paths exhausted. Bounded model checking against a stated OS model.',
        note='Trusted: the fakeos model (atomic ordered durable directory operations; data durable only after fsync), CrossHair/z3. Outside: real kernel/FS, Windows branch.',
        ref='C04'),
    'C05': dict(
        technique='bounded symbolic execution (CrossHair/z3) of the real AtomicSaver code over the same OS model with fault injection: failing call(s), '
                  'configuration, umask, initial destination/part state, racing creator and body exception are solver-chosen',
        text='Every single injected OS failure (and pairs) at open/chmod/write/flush/fsync/close/rename/link, every combination of overwrite, '
             'rm_part_on_exc, text_mode (and, in dedicated obligations, overwrite_part x pre-existing part, file_perms x umask x destination mode, a '
             'destination appearing at any tick; every permission word 0..0o7777 as the mode of the replaced file and as explicit file_perms): an incomplete save raises, leaves destination bytes and mode untouched, leaves no part file when '
             'rm_part_on_exc, never touches a foreign part file without overwrite_part, and an immediate retry succeeds; a completed save has the '
             'explicit / inherited / umask permissions. Bounded model checking.',
        note='Trusted: fakeos model, CrossHair/z3. Fault sites are the steps the statement lists; stat/lexists/unlink/fdopen are not fault sites.',
        ref='C05'),
    'C06': dict(
        technique='z3 lemma over the module\'s quoting tables (symbolic byte) + bounded symbolic execution (CrossHair/z3 string theory) of '
                  'from_parts/to_text/URL()/quote_*_part/unquote with a symbolic ASCII character per component; totality over an explicit alphabet',
        text='(1) For each of the four *_QUOTE_MAP tables read from the imported module and a symbolic byte: emitted raw only if RFC 3986 allows '
             'the character at that position, otherwise %XX of itself; _HEX_CHAR_MAP inverts every escape (unsat queries). (2) For each of six '
             'components a symbolic ASCII character between two context characters: all components recovered after full-quote render + parse, '
             'nothing leaks, rendered characters legal, unquote(quote(v)) == v, full-quote and (no %) minimal-quote fixed points. (3) URL(text) '
             'returns or raises URLParseError and find_all_links never raises, for a free character from all ASCII + 22 non-ASCII class '
             'representatives alone and inside 11 skeletons. Bounded model checking.',
        note='Trusted: CrossHair string/regex model, z3, RFC sets written in the harness, NFC == identity on ASCII (stub). Outside: non-ASCII component text beyond the byte-level lemma, longer values, rendering totality.',
        ref='C06'),
    'C07': dict(
        technique='bounded symbolic execution (CrossHair/z3) of the real URL.navigate/normalize against an oracle written from RFC 3986 5.2.2/5.2.4/5.3; '
                  'reference shape solver-chosen, one path segment as a symbolic string',
        text='Every relative reference with optional leading slash, 0..3 segments from {., .., empty, two names}, optional query and fragment, '
             'given as text or URL object, is resolved against 64 base shapes (path-less, 1-2 segments, empty segment, trailing slash, query, '
             'fragment, userinfo+port) and compared with the RFC algorithm; no dot segments, never above root, base unmodified, normalize '
             'idempotent, chained navigation == stepwise resolution, absolute references replace the base. A separate obligation keeps one '
             'segment symbolic (string over {a, .}, length 1..2) so that dot-segment recognition is decided by the solver through the real parser.',
        note='Trusted: CrossHair/z3, the RFC oracle. Outside: longer references, authority-only references, defined-but-empty query/fragment, non-ASCII segments.',
        ref='C07'),
    'C08': dict(
        technique='bounded symbolic execution (CrossHair/z3) of the real remap/research/get_path: tree shape, node kinds, one alias/cycle edge and '
                  'the visit decision are solver-chosen; oracle = recursive rebuild with id-memo',
        text='Every structure of <= 4 nodes over leaf/list/dict/tuple/set/frozenset (every parent assignment; <= 3 nodes with one extra alias '
             'edge including back edges = cycles through lists/dicts) is remapped with the default callbacks (equal copy, no mutable container '
             'shared, input untouched, sharing preserved, research paths retrievable) and with a one-cell decision-table visit function '
             '(keep/drop/replace/rename by depth class and value class) and compared - with identity-aware shapes - to the recursive rebuild. '
             'Path trees exhausted (infeasible shapes discarded as assumptions). Bounded model checking.',
        note='Trusted: CrossHair/z3 exhaustion, the oracle. Outside: custom enter/exit, user container classes, larger shapes, cycles through tuples.',
        ref='C08'),
    'C09': dict(
        technique='bounded symbolic execution (CrossHair/z3): chunk_ranges on symbolic integers (offset unbounded); sequence helpers with '
                  'solver-decided lengths, element-class patterns, sizes, counts, maxsplit and key-equality patterns; oracles str.split/str.strip, slicing',
        text='chunk_ranges: for input_size 0..8, chunk_size 1..4, every overlap < chunk_size, both align modes and an unbounded symbolic '
             'input_offset the yielded ranges satisfy start/end/length/overlap/alignment/coverage laws on every path. chunked, windowed, pairwise, '
             'split (sep None/scalar/collection/callable x maxsplit None,0..3), lstrip/rstrip/strip, unique, redundant, bucketize, partition: every '
             'length 0..5, every separator/other/None pattern, list/tuple/one-shot-iterator/str/bytes inputs, *_iter forms equal list forms. '
             'Path trees exhausted; bounded model checking.',
        note='Trusted: CrossHair/z3, str.split/str.strip and list slicing as reference. Outside: longer sequences, more chunks, exotic __eq__.',
        ref='C09'),
    'C10': dict(
        technique='bounded symbolic execution (CrossHair/z3) of the real HeapPriorityQueue/SortedPriorityQueue/BarrelList code: '
                  'the order pattern of symbolic priorities, sub-list layout and operations are solver variables; differential + sorted-list model',
        text='Both queue classes run the same script (0..4 adds with symbolic priorities or None, then 1-2 operations from add/re-add/remove/'
             'pop/peek with and without default, then a full drain) side by side and against a model; every weak ordering of the priorities '
             'is explored to exhaustion. The BarrelList backend is driven into several sub-lists at small size (real split code with '
             '_size_factor=1, and explicit symbolic cut points incl. empty sub-lists); BarrelList insert/pop/getitem/delitem/index/setitem '
             'are additionally compared with list for all valid indexes over all 3-way partitions of <=5 items.',
        note='Trusted: CrossHair/z3, the model. Outside: float/NaN priorities, custom priority_key, queues larger than the bound (production-size '
             'layouts are represented only by the small-size layouts), out-of-range BarrelList indexes.',
        ref='C10'),
    'C11': dict(
        technique='bounded symbolic execution (CrossHair/z3) of the real IndexedSet methods against a plain list and Python sets: '
                  'size, removal positions (tombstone layouts), operation arguments and operand contents/kinds are solver-decided, path tree exhausted',
        text='From every pre-state of 0..5 items with up to 3 removals at arbitrary positions (by remove or pop(i); plus 8 items/4 removals and '
             '17 items under production compaction constants) each of 14 list-style operations and 22 set-style operations (0-2 operands, five '
             'operand kinds, every subset of a small universe, sequence operands in either order and with repeated items) is applied; afterwards iteration, len, in, s[i] for every valid index, EVERY '
             'slice with bounds in -n-2..n+2/None and steps None,1,2,3, index, count, reversed and ==, followed by further appends/removals, are '
             'compared with a list; set results with Python sets plus the ordering rule. Bounded model checking.',
        note='Trusted: CrossHair/z3 exhaustion, list/set as oracle. Outside: >384 dead intervals, negative slice steps, iterators as operands, larger sets.',
        ref='C11'),
    'C12': dict(
        technique='bounded symbolic execution (CrossHair/z3) of the real BufferedSocket/NetstringSocket over a scripted socket and harness clock: '
                  'stream byte-class pattern and call script solver-chosen, every chunking / recvsize / timeout / clock-jump position run per choice',
        text='For delimiters ":" , CRLF and the self-overlapping "aa", every stream of <= 3 bytes over {delimiter bytes, other}, every script of 2 '
             'calls from recv_until (with/without delimiter, maxsize 1..4), recv_size, peek, recv, recv_close with every size 0..4: under every '
             'composition into chunks, recvsize 1..2, one socket timeout at any recv or one clock jump past the deadline (calls retried after '
             'Timeout) results and exceptions equal the one-chunk delivery and consumed + getrecvbuffer() + undelivered == stream after every '
             'call. Send side: every 3-call script of send/sendall/buffer/flush under every partial-send/timeout pattern keeps sent + '
             'getsendbuffer() == accepted. Netstrings: every pair of payloads <= 2 bytes over {":", ",", digit, other} round-trips under every chunking.',
        note='Trusted: the scripted socket/clock model, CrossHair/z3 exhaustion. Outside: real sockets, flags, threads, read_ns retried after a mid-message Timeout, longer streams.',
        ref='C12'),
    'C13': dict(
        technique='bounded symbolic execution (CrossHair/z3): FunctionBuilder default bookkeeping on symbolic default values; wraps/update_wrapper over '
                  'a solver-enumerated signature family with every call shape compared against the original function',
        text='(a) For builders of arity <= 4 with any number of trailing defaults and <= 2 keyword-only parameters, symbolic default values: after '
             'remove_arg of any parameter or add_arg (positional/keyword-only, with/without default) every other parameter keeps exactly its '
             'default. (b) For every signature with 0..3 positional-or-keyword parameters, any defaults, *args, 0..2 keyword-only parameters, '
             '**kwargs, annotations, sync and async: inspect.signature(wrapper, follow_wrapped=False) == signature(original), metadata and '
             '__wrapped__, and for all 320 call shapes (0..4 positionals x subsets of 6 keywords) the wrapper accepts/rejects and binds exactly '
             'like the original; injected removes exactly that parameter, expected adds exactly one. Structure-symbolic enumeration in (b).',
        note='Trusted: CrossHair/z3 exhaustion, inspect.signature as oracle. Outside: positional-only parameters, non-literal defaults, partials, methods.',
        ref='C13'),
    'C14': dict(
        technique='bounded symbolic execution (CrossHair/z3 string theory) of args2sh/args2cmd on one symbolic Unicode argument, re-split by '
                  'independent POSIX-shell / MS-CRT reference splitters; integer-list functions over solver-chosen subsets',
        text='args2sh: for EVERY argument of length <= 2 over all of Unicode except NUL, placed between concrete neighbours, the produced text '
             'is split by a POSIX word-splitter (which rejects any unquoted expandable/glob/operator character) into exactly the arguments; '
             'args2cmd likewise for length <= 3 under the documented MS C runtime rules; escape_shell_args dispatch. format/parse/complement/'
             'int_ranges: every subset of 0..9 with duplicates and reversed order, every window. The gzip round-trip clause is NOT decided '
             '(zlib is C code; a symbolic payload would be realised to one value) and is not claimed. Bounded model checking.',
        note='Trusted: CrossHair string/regex model, z3, the two reference splitters. Outside: longer arguments, NUL, gzip clause.',
        ref='C14'),
    'C15': dict(
        engine='E2',
        technique='symbolic interpretation of the AST of backoff_iter (vf/pysym.py) into z3 real/int terms with bounded unrolling and unwinding '
                  'check; IEEE-754 inductive step decided by cvc5 1.4 (QF_FP), models read back; counterexamples replayed on the real generator',
        text='Read from the repository on every run, backoff_iter is executed symbolically: for all real start/stop/factor and symbolic count 0..5 '
             'every path obligation (ValueError exactly outside the valid region and before any value, exactly count values, first == start, '
             'monotone, capped, exact growth law incl. 0 -> min(1, stop)) is unsat; count=\'repeat\' never terminates within the bound; for all '
             'jitter in [-1,1] and all draws each value lies between b and b(1-j); with the default count the last value is stop (factor in '
             '{2, 10, 3/2} and every real factor >= 3/2). Over IEEE doubles one loop iteration from any valid state preserves the invariant and '
             'follows the growth law (cvc5, all finite doubles) - an inductive argument without a count bound.',
        note='Trusted: the pysym interpreter (validated on every run against the real generator on the repository test inputs), z3, cvc5. Reals stand for floats in the bounded obligations; only the inductive step is bit-precise.',
        ref='C15'),
    'C16': dict(
        technique='bounded symbolic execution (CrossHair/z3) with solver-drawn characters and structures: ParsedException text round-trip over every '
                  'generated structure; ExceptionInfo/TracebackInfo vs the traceback module on solver-chosen live call chains',
        text='(a) For each of five fields (path, function name, source line, exception type, message) a free text of 1-2 characters - first drawn '
             'from a 106-character alphabet (printable ASCII, controls, non-ASCII representatives), second from 13 format-relevant characters - is '
             'embedded in EVERY structure of 0..2 frames (source line on/off per frame, function-name kinds, four message classes incl. ": " and '
             'multi-line): from_string recovers every field and to_string reproduces the text. (b) Every call chain of depth 1..3 over plain / '
             'lambda / source-less frames, 6 exception types x 4 message classes: frames, to_dict and get_formatted equal traceback.extract_tb / '
             'format_exception (marker lines aside). Exhaustive within these bounds; a fully symbolic character did not exhaust (DESIGN).',
        note='Trusted: CrossHair/z3 exhaustion, traceback module as oracle. Outside: SyntaxError layout, chained causes, notes, fields with line-break characters, longer free texts.',
        ref='C16'),
    'C17': dict(
        technique='bounded symbolic execution (CrossHair/z3) of the real OneToOne/ManyToMany/FrozenDict methods: '
                  'one arbitrary operation from an arbitrary reachable pre-state, equality pattern of keys/values decided by the solver',
        text='Every feasible equality pattern of <=3 pre-state pairs and <=2 argument pairs, for each of 14 OneToOne / 11 ManyToMany '
             'operations applied through either side, is explored to exhaustion (path tree exhausted = holds within the bound); '
             'inverse-consistency and a reference model are asserted after the operation. Bounded, not a proof.',
        note='Keys/values interact with the code only through ==/hash; CrossHair path exhaustion and z3 are trusted; pre-states larger than the bound are outside the claim.',
        ref='C17'),
    'C18': dict(
        technique='bounded symbolic execution (CrossHair/z3): solver-chosen scripts of file operations on SpooledBytesIO/SpooledStringIO for every '
                  'max_size, differential against io.BytesIO/io.StringIO; MultiFileReader over solver-chosen partitions',
        text='From four preset contents (multi-byte characters, LF/CR/CRLF and other Unicode line boundaries) every script of 2 operations out of '
             'write/read(n)/read()/readline/readline(n)/readlines/iteration/seek(p)/seek-to-end/tell/getvalue/len with solver-chosen sizes, positions and '
             'chunk classes runs on a spooled object for EVERY max_size 1..len+3 and never-rolling, and on the io reference: results, tell() and '
             'getvalue() agree after each step. MultiFileReader: every content of <= 2 items, every 3-way partition (empty members), scripts of '
             'sized/unsized reads and seek(0), then a sized read of the rest; every 4-call script over three fixed members. Every script of 4 '
             'read/seek calls (incl. a refused seek) with NO tell()/getvalue() in between, then the rest is read. Bounded model checking.',
        note='Trusted: CrossHair/z3 exhaustion, io.BytesIO/io.StringIO as reference, real TemporaryFile. Outside: truncate, fileno, longer scripts, other encodings.',
        ref='C18'),
    'C19': dict(
        technique='bounded symbolic execution (CrossHair/z3): iter_splitlines on a symbolic Unicode string through the real regex scan '
                  '(CrossHair regex/string theory); reverse_iter_lines and JSONLIterator on contents assembled from solver-chosen item classes, every block size',
        text='iter_splitlines(text) equals an explicit scanner over the eight listed breaks for EVERY text of length <= 3 over all of Unicode '
             '(minus \\x1c-\\x1e) - the characters are solver variables. reverse_iter_lines: every content of <= 5 items from {LF, CRLF, ASCII, '
             '2-byte, 3-byte}, every blocksize 1..len+1, binary and text-mode file objects, equals the reversed forward split. JSONLIterator: '
             '<= 3 lines from {object, array, blank, whitespace, corrupt}, forward == reversed(reverse), ignore_errors, with the fixed 4096-byte '
             'block edge placed at every offset. Path trees exhausted; bounded model checking.',
        note='Trusted: CrossHair string/regex model and z3; in-memory CPython file objects. Outside: longer texts/files, bare CR in files, rel_seek, other encodings.',
        ref='C19'),
    'C20': dict(
        technique='bounded symbolic execution (CrossHair/z3) of the real ThresholdCounter against an exact Counter, key stream symbolic; '
                  'plus z3 bounded model checking of a transition relation generated from the AST of ThresholdCounter.add for the size bound',
        text='For six thresholds (floor(1/t) = 1..5) every equality pattern of a stream of up to 7 keys, delivered by add / update(list) / '
             'update(iterator) / update(mapping) / update(**kw) / mixed / mapping plus keywords in one call / one add followed by bulk counts, is explored to exhaustion; after every call total, the per-key '
             'never-over / bounded-under count law, presence of frequent keys, the size bound, common+uncommon == total and the '
             'items/keys/values/elements/most_common views are checked against the exact counts. Bounded model checking.',
        note='Trusted: CrossHair/z3, the exact Counter oracle. Outside: longer streams (for the E1 clauses), other thresholds.',
        ref='C20'),
}
NOT_APPLICABLE = []
ALL = ['C%02d' % i for i in range(1, 21)]
PENDING_REASON = 'check not built yet in this round (design in DESIGN.md section 3); not claimed until its harness lands'

def main():
    checks = []
    for pid in sorted(CHECKS):
        c = CHECKS[pid]
        checks.append({
            'property_id': pid,
            'quick_cmd': './check %s quick' % pid,
            'thorough_cmd': './check %s thorough' % pid,
            'evidence_file': 'evidence/%s.json' % pid,
            'replay_cmd_template': './check --replay {path}',
            'engine': c.get('engine', 'E1'),
            'level_claimed': {'category': 'model_checking', 'text': c['text'], 'design_ref': 'DESIGN.md section 3, ' + c['ref']},
            'level_note': c['note'],
            'technique': c['technique'],
        })
    m = {
        'version': 1,
        'setup_cmd': './setup.sh',
        'hooks': {'guard': 'BOLTONS_VERIF', 'enable': 'no source hooks are needed: harnesses set module attributes from their own process',
                  'baseline_off_cmd': 'cd /repo && /venv/bin/python -m pytest -ra -q -p no:cacheprovider --timeout=900 --continue-on-collection-errors',
                  'source_commits': [], 'add_only': True},
        'engines': [
            {'name': 'E1', 'path': 'vf/worker.py', 'serves_properties': sorted(p for p in CHECKS if CHECKS[p].get('engine', 'E1') == 'E1'),
             'kind_free_text': E1},
            {'name': 'E3', 'path': 'vf/coro.py', 'serves_properties': ['C03'],
             'kind_free_text': 'AST transformer turning LRI/LRU methods into coroutines + symbolic-schedule scheduler, executed by E1; real-thread replay'},
            {'name': 'E2', 'path': 'vf/pysym.py', 'serves_properties': sorted(p for p in CHECKS if CHECKS[p].get('engine', 'E1') == 'E2') + ['C20'],
             'kind_free_text': 'own AST-walking symbolic interpreter producing z3 terms (reals/ints, bounded unrolling) and SMT-LIB for cvc5 (QF_FP); direct z3 lemmas (vf/direct.py)'},
        ],
        'checks': checks,
        'notes': 'Exit codes: 0 held within bounds (KNOWN-FINDING lines allowed), 1 reproduced violation, 3 harness error. '
                 'known_findings.json lists recorded and fixed defects.',
        'not_applicable': NOT_APPLICABLE + [{'property_id': p, 'reason': PENDING_REASON} for p in ALL if p not in CHECKS],
    }
    json.dump(m, open(os.path.join(ROOT, 'MANIFEST.json'), 'w'), indent=1)
    try:
        import jsonschema
        jsonschema.validate(m, json.load(open('/root/.vp/MANIFEST.schema.json')))
        print('MANIFEST.json valid,', len(checks), 'checks')
    except ImportError:
        print('MANIFEST.json written (jsonschema not importable here)')

if __name__ == '__main__':
    main()

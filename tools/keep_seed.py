#!/usr/bin/env python3
"""keep a validated seeded change: tools/keep_seed.py <PROP> <src_dir> <name> <breaks> <needs> <check_result>"""
import json, os, shutil, sys
prop, src, name, breaks, needs, result = sys.argv[1:7]
root = os.path.dirname(os.path.dirname(os.path.abspath(__file__)))
dst = os.path.join(root, 'seeded', name)
os.makedirs(dst, exist_ok=True)
for f in ('patch.diff', 'demo.py', 'notes.md'):
    shutil.copy(os.path.join(src, f), os.path.join(dst, f))
json.dump({'property': prop, 'breaks': breaks, 'needs_to_manifest': needs,
           'validated': 'TRY_SEED_WT=1 tools/try_seed.sh %s seeded/%s : demo.py exits 0 on the pristine tree and fails with patch.diff applied; the pinned suite reports 423 passed with the patch' % (prop, name),
           'check_result': result, 'source': 'independent sub-agent (second round) given only the property text and a scratch worktree'},
          open(os.path.join(dst, 'meta.json'), 'w'), indent=1)
print('kept', dst)

#!/usr/bin/env python3
"""Print the markdown tables of repaired defects and of seeded changes (pasted into DESIGN.md sections 5 and 6)."""
import json, glob, os
ROOT = os.path.dirname(os.path.dirname(os.path.abspath(__file__)))
d = json.load(open(os.path.join(ROOT, 'known_findings.json')))
print('| property | fix commit in /repo | defect (reproduced by the check before the repair) |\n|---|---|---|')
for f in sorted(d['findings'], key=lambda f: f['property']):
    if f['status'] == 'fixed':
        w = f['what'].split(' ', 3)
        print('| %s | `%s` | %s |' % (f['property'], f['commit'], (w[3] if len(w) > 3 else f['what']).replace('|', '\\|')))
print()
print('| seed | change (still passes the 423 tests) | needs, to manifest | outcome |\n|---|---|---|---|')
for p in sorted(glob.glob(os.path.join(ROOT, 'seeded', '*', 'meta.json'))):
    m = json.load(open(p)); k = os.path.basename(os.path.dirname(p))
    print('| %s | %s | %s | %s |' % (k, m['breaks'].replace('|', '\\|'), m['needs_to_manifest'].replace('|', '\\|'), m['check_result'].replace('|', '\\|')))

#!/usr/bin/env python3
"""Regenerate the tables of repaired defects and of seeded changes in DESIGN.md (between the *_TABLE_BEGIN/END markers);
with --print only print them."""
import json, glob, os, sys, io
_out = io.StringIO()
_print = print
def print(*a):
    _print(*a, file=_out)
ROOT = os.path.dirname(os.path.dirname(os.path.abspath(__file__)))
d = json.load(open(os.path.join(ROOT, 'known_findings.json')))
print('| property | fix commit in /repo | defect (reproduced by the check before the repair) |\n|---|---|---|')
for f in sorted(d['findings'], key=lambda f: f['property']):
    if f['status'] == 'fixed':
        w = f['what'].split(' ', 3)
        print('| %s | `%s` | %s |' % (f['property'], f['commit'], (w[3] if len(w) > 3 else f['what']).replace('|', '\\|')))
print()
print('| seed | change (still passes the 423 tests) | needs, to manifest | outcome |\n|---|---|---|---|')
for p in sorted(glob.glob(os.path.join(ROOT, 'seeded', '*', 'meta.json'))):
    m = json.load(open(p)); k = os.path.basename(os.path.dirname(p))
    print('| %s | %s | %s | %s |' % (k, m['breaks'].replace('|', '\\|'), m['needs_to_manifest'].replace('|', '\\|'), m['check_result'].replace('|', '\\|')))

fix, seed = _out.getvalue().split('\n\n', 1)
if '--print' in sys.argv:
    _print(_out.getvalue())
else:
    p = os.path.join(ROOT, 'DESIGN.md')
    s = open(p).read()
    for name, body in (('FIX', fix), ('SEED', seed)):
        b, e = '<!-- %s_TABLE_BEGIN -->' % name, '<!-- %s_TABLE_END -->' % name
        i, j = s.index(b) + len(b), s.index(e)
        s = s[:i] + '\n' + body.strip() + '\n' + s[j:]
    open(p, 'w').write(s)
    _print('DESIGN.md tables regenerated: %d fixes, %d seeds' % (fix.count('\n| C'), seed.count('\n| C')))

#!/bin/bash
# usage: tools/try_seed.sh <PROP> <seed_dir_with patch.diff demo.py> [tier]
# 1. validates the seed in a scratch worktree (suite still passes, demo fails with / passes without)
# 2. runs ./check PROP against the seed.  Default: applies it to /repo, runs, reverts (git checkout -- .).
#    With TRY_SEED_WT=1 the check analyses the patched scratch worktree instead (VF_REPO), so that /repo
#    stays untouched while other checks are running.  Prints a one-line verdict.
set -u
P=$1; D=$(realpath $2); T=${3:-quick}
W=/tmp/tryseed_$$
git -C /repo worktree add -q --detach $W HEAD || exit 9
cd $W
PYTHONPATH=$W /venv/bin/python $D/demo.py >/dev/null 2>&1; base=$?
git apply $D/patch.diff || { echo "SEED-INVALID patch does not apply"; cd /; git -C /repo worktree remove --force $W; exit 9; }
PYTHONPATH=$W /venv/bin/python $D/demo.py >/dev/null 2>&1; mut=$?
tests=$(PYTHONPATH=$W /venv/bin/python -m pytest -q -p no:cacheprovider -x tests 2>&1 | tail -1)
echo "seed $D: demo pristine rc=$base, demo patched rc=$mut, suite: $tests"
bad=0
if [ $base -ne 0 ] || [ $mut -eq 0 ]; then echo "SEED-INVALID demo does not discriminate"; bad=1; fi
case "$tests" in *failed*|*error*) echo "SEED-INVALID suite fails"; bad=1;; esac
if [ $bad -eq 1 ]; then cd /; git -C /repo worktree remove --force $W; exit 9; fi
cd /verif
if [ -n "${TRY_SEED_WT:-}" ]; then
  VF_REPO=$W ./check $P $T --no-evidence > /tmp/tryseed_$$.log 2>&1; rc=$?
  git -C /repo worktree remove --force $W
else
  git -C /repo worktree remove --force $W
  git -C /repo apply $D/patch.diff || exit 9
  ./check $P $T --no-evidence > /tmp/tryseed_$$.log 2>&1; rc=$?
  git -C /repo checkout -- .
fi
grep -E "HARNESS-ERROR|INCONCLUSIVE" /tmp/tryseed_$$.log | head -3
grep -B1 "^VIOLATION" /tmp/tryseed_$$.log | grep "^  " | cut -c1-260 | head -3
grep -E "^violations by failing clause" /tmp/tryseed_$$.log
head -1 /tmp/tryseed_$$.log | cut -c1-200
[ $rc -eq 1 ] && echo "DETECTED $P $D" || echo "MISSED $P $D (rc=$rc)"
rm -f /tmp/tryseed_$$.log /verif/evidence/replays/$P-$T-*.json

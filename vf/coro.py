"""E3: turn the methods of cacheutils.LRI / LRU into coroutines so that thread schedules become data.

The source of boltons.cacheutils is read with inspect on every run.  Every method of LRI/LRU
(except __init__, __repr__ and the debug helpers) is rewritten into a generator:
  * a `yield ('at', lineno)` is inserted before every statement that touches non-local state
    (any attribute access, subscript or call in the statement / in the header of a compound
    statement); purely local statements and `return` of a local get none;
  * calls of other transformed methods on self (also through bound-method aliases such as
    `setitem = self.__setitem__`, and the implicit protocol calls `self[key]`,
    `self[key] = value` - also inside chained assignments) are delegated with `yield from`;
  * `with self._lock:` becomes an announcement `yield ('want', lineno, <lock expression>, cell)`, the
    binding of the lock object (once, like the with statement: enter and exit act on the same
    object even if the body rebinds self._lock), `yield from lock.co_acquire(lineno)` (yields
    ('blocked', ...) while another logical thread owns that object) and try/finally release;
    RLock is replaced by ModelLock (owner = logical thread, depth).
A scheduler (run_concurrent) interleaves the coroutines of several logical threads; the schedule
is (first thread, set of switch points over the numbered choice points at which more than one
thread is enabled), which the harness keeps symbolic.
"""
import ast
import inspect
import sys
import threading
import time

CUR = [0]          # logical thread currently running


class ModelLock:
    def __init__(self):
        self.owner = None
        self.depth = 0

    def co_acquire(self, lineno=0):
        # the lock object is already bound: wait for it, take it
        while self.owner is not None and self.owner != CUR[0]:
            yield ('blocked', lineno, self)
        self.owner = CUR[0]
        self.depth += 1

    def release(self):
        self.depth -= 1
        if self.depth == 0:
            self.owner = None

    # plain context-manager protocol for untransformed callers (__init__ -> update is transformed, so unused there)
    def __enter__(self):
        self.owner = CUR[0]
        self.depth += 1

    def __exit__(self, *a):
        self.release()


def _is_self(node):
    return isinstance(node, ast.Name) and node.id == 'self'


LOCK_ATTRS = {'_lock'}      # attributes of self assigned from RLock()/Lock() in the class source; set by transform()
TX_COUNT = [0]              # with-statements on a lock attribute that were rewritten


class Tx(ast.NodeTransformer):
    def __init__(self, methods):
        self.methods = methods
        self.aliases = set()

    def visit_Call(self, node):
        self.generic_visit(node)
        f = node.func
        if isinstance(f, ast.Attribute) and _is_self(f.value) and f.attr in self.methods:
            return ast.YieldFrom(value=node)
        if isinstance(f, ast.Name) and f.id in self.aliases:
            return ast.YieldFrom(value=node)
        return node

    def visit_Subscript(self, node):
        self.generic_visit(node)
        if _is_self(node.value) and isinstance(node.ctx, ast.Load):
            call = ast.Call(func=ast.Attribute(value=ast.Name('self', ast.Load()), attr='__getitem__', ctx=ast.Load()),
                            args=[node.slice], keywords=[])
            return ast.YieldFrom(value=call)
        return node

    def _y(self, st):
        ln = getattr(st, 'lineno', 0)
        return ast.Expr(value=ast.Yield(value=ast.Tuple(elts=[ast.Constant('at'), ast.Constant(ln)], ctx=ast.Load())))

    @staticmethod
    def _shared(st):
        if isinstance(st, (ast.If, ast.For, ast.While, ast.Try, ast.With)):
            hdr = getattr(st, 'test', None) or getattr(st, 'iter', None)
            return hdr is not None and any(isinstance(n, (ast.Subscript, ast.Attribute, ast.Call)) for n in ast.walk(hdr))
        return any(isinstance(n, (ast.Subscript, ast.Attribute, ast.Call)) for n in ast.walk(st))

    def _body(self, stmts):
        out = []
        for st in stmts:
            shared = self._shared(st)
            marker = self._y(st)
            res = self.visit(st)
            res = res if isinstance(res, list) else [res]
            if shared:
                out.append(marker)
            out.extend(res)
        return out

    def visit_FunctionDef(self, node):
        self.aliases = set()
        node.body = self._body(node.body)
        return node

    def visit_If(self, node):
        node.test = self.visit(node.test)
        node.body = self._body(node.body)
        node.orelse = self._body(node.orelse)
        return node

    def visit_For(self, node):
        node.iter = self.visit(node.iter)
        node.body = self._body(node.body)
        node.orelse = self._body(node.orelse)
        return node

    def visit_While(self, node):
        node.test = self.visit(node.test)
        node.body = self._body(node.body)
        return node

    def visit_Try(self, node):
        node.body = self._body(node.body)
        for h in node.handlers:
            h.body = self._body(h.body)
        node.orelse = self._body(node.orelse)
        node.finalbody = self._body(node.finalbody)
        return node

    def visit_With(self, node):
        item = node.items[0].context_expr
        if isinstance(item, ast.Attribute) and _is_self(item.value) and item.attr in LOCK_ATTRS:
            TX_COUNT[0] += 1
            # like the with statement, evaluate the lock expression once: enter and exit act on the same object
            # even if the body rebinds self._lock
            #   cell = [None]
            #   yield ('want', lineno, lambda: self._lock, cell)     announce; the scheduler may bind the lock object into the cell
            #   lk = cell[0] or self._lock                           otherwise it is evaluated when the thread runs again
            #   yield from lk.co_acquire(lineno); try: body; finally: lk.release()
            tmp = '_tx_lock_%d' % node.lineno
            cell = '_tx_cell_%d' % node.lineno
            mk_cell = ast.Assign(targets=[ast.Name(cell, ast.Store())], value=ast.List(elts=[ast.Constant(None)], ctx=ast.Load()))
            lam = ast.Lambda(args=ast.arguments(posonlyargs=[], args=[], kwonlyargs=[], kw_defaults=[], defaults=[]), body=item)
            want = ast.Expr(value=ast.Yield(value=ast.Tuple(
                elts=[ast.Constant('want'), ast.Constant(node.lineno), lam, ast.Name(cell, ast.Load())], ctx=ast.Load())))
            cell0 = ast.Subscript(value=ast.Name(cell, ast.Load()), slice=ast.Constant(0), ctx=ast.Load())
            bind = ast.Assign(targets=[ast.Name(tmp, ast.Store())],
                              value=ast.IfExp(test=ast.Compare(left=cell0, ops=[ast.IsNot()], comparators=[ast.Constant(None)]), body=cell0, orelse=item))
            acq = ast.Expr(value=ast.YieldFrom(value=ast.Call(
                func=ast.Attribute(value=ast.Name(tmp, ast.Load()), attr='co_acquire', ctx=ast.Load()), args=[ast.Constant(node.lineno)], keywords=[])))
            rel = ast.Expr(value=ast.Call(func=ast.Attribute(value=ast.Name(tmp, ast.Load()), attr='release', ctx=ast.Load()), args=[], keywords=[]))
            body = self._body(node.body)
            return [mk_cell, want, bind, acq, ast.Try(body=body, handlers=[], orelse=[], finalbody=[rel])]
        node.body = self._body(node.body)
        return node

    def visit_Assign(self, node):
        v = node.value
        if (isinstance(v, ast.Attribute) and _is_self(v.value) and v.attr in self.methods
                and len(node.targets) == 1 and isinstance(node.targets[0], ast.Name)):
            self.aliases.add(node.targets[0].id)
            return node
        node.value = self.visit(node.value)
        self_targets = [t for t in node.targets if isinstance(t, ast.Subscript) and _is_self(t.value)]
        if not self_targets:
            # `other[key] = value` where `other` may be another cache of the transformed class (copy() fills a new cache):
            # item assignment on such an object must run that object's coroutine; anything else is a plain assignment
            if (len(node.targets) == 1 and isinstance(node.targets[0], ast.Subscript) and isinstance(node.targets[0].value, ast.Name)):
                t = node.targets[0]
                call = ast.Call(func=ast.Name('_tx_setitem', ast.Load()), args=[ast.Name(t.value.id, ast.Load()), t.slice, node.value], keywords=[])
                return ast.Expr(value=ast.YieldFrom(value=call))
            node.targets = [self.visit(t) for t in node.targets]
            return node
        tmp = ast.Name('_tx_tmp', ast.Store())
        out = [ast.Assign(targets=[tmp], value=node.value)]
        for t in node.targets:
            if t in self_targets:
                call = ast.Call(func=ast.Attribute(value=ast.Name('self', ast.Load()), attr='__setitem__', ctx=ast.Load()),
                                args=[t.slice, ast.Name('_tx_tmp', ast.Load())], keywords=[])
                out.append(ast.Expr(value=ast.YieldFrom(value=call)))
            else:
                out.append(ast.Assign(targets=[t], value=ast.Name('_tx_tmp', ast.Load())))
        return out

    def visit_Delete(self, node):
        # del self[key] inside a method
        out = []
        for t in node.targets:
            if isinstance(t, ast.Subscript) and _is_self(t.value):
                call = ast.Call(func=ast.Attribute(value=ast.Name('self', ast.Load()), attr='__delitem__', ctx=ast.Load()),
                                args=[t.slice], keywords=[])
                out.append(ast.Expr(value=ast.YieldFrom(value=call)))
            else:
                out.append(ast.Delete(targets=[self.visit(t)]))
        return out


SKIP = {'__init__', '_print_ll', '_get_flattened_ll', '__repr__', '_init_ll'}


def transform(module, drop_lock_in=()):
    """returns (CoLRI, CoLRU, source text of the transformed classes).
    drop_lock_in: method names whose `with self._lock:` is removed first (in-memory mutant for the sensitivity check)."""
    src = inspect.getsource(module)
    mod = ast.parse(src)
    classes = [n for n in mod.body if isinstance(n, ast.ClassDef) and n.name in ('LRI', 'LRU')]
    if len(classes) != 2:
        raise RuntimeError('LRI/LRU not found')
    methods = set()
    for c in classes:
        for f in c.body:
            if isinstance(f, ast.FunctionDef) and f.name not in SKIP:
                methods.add(f.name)
    # which attributes hold the lock?  (self.<attr> = RLock() / Lock() anywhere in the two classes)
    found = set()
    for c in classes:
        for n in ast.walk(c):
            if isinstance(n, ast.Assign) and isinstance(n.value, ast.Call) and ast.unparse(n.value.func).split('.')[-1] in ('RLock', 'Lock'):
                for t in n.targets:
                    if isinstance(t, ast.Attribute) and _is_self(t.value):
                        found.add(t.attr)
    if not found:
        from vf.rt import HarnessGap
        raise HarnessGap('no self.<attr> = RLock() found in LRI/LRU: the coroutine transformer must be adapted')
    LOCK_ATTRS.clear()
    LOCK_ATTRS.update(found)
    TX_COUNT[0] = 0
    for c in classes:
        body = []
        for f in c.body:
            if isinstance(f, ast.FunctionDef) and f.name in methods:
                if f.name in drop_lock_in and c.name == 'LRI':
                    newbody = []
                    for st in f.body:
                        if isinstance(st, ast.With) and isinstance(st.items[0].context_expr, ast.Attribute) and st.items[0].context_expr.attr in LOCK_ATTRS:
                            newbody.extend(st.body)
                        else:
                            newbody.append(st)
                    f.body = newbody
                f = Tx(methods).visit(f)
            body.append(f)
        c.body = body
    if TX_COUNT[0] == 0 and not drop_lock_in:
        from vf.rt import HarnessGap
        raise HarnessGap('no `with self.<lock>:` statement found in LRI/LRU: locking is done some other way, the transformer must be adapted')
    newmod = ast.Module(body=classes, type_ignores=[])
    ast.fix_missing_locations(newmod)
    ns = dict(vars(module))
    ns['RLock'] = ModelLock
    ns['Lock'] = ModelLock

    def _tx_setitem(obj, key, value):
        f = getattr(type(obj), '__setitem__', None)
        if f is not None and inspect.isgeneratorfunction(f):
            yield from f(obj, key, value)
        else:
            obj[key] = value
    ns['_tx_setitem'] = _tx_setitem
    exec(compile(newmod, '<coro:%s>' % module.__name__, 'exec'), ns)
    return ns['LRI'], ns['LRU'], ast.unparse(newmod)


def drive(gen):
    """run a coroutine to completion (single logical thread)"""
    try:
        while True:
            r = next(gen)
            if r[0] == 'blocked':
                raise RuntimeError('deadlock in sequential mode')
    except StopIteration as e:
        return e.value


def run_concurrent(lock, gens, first, is_switch, record=None):
    """Interleave the coroutines.  `first`: index of the thread that runs first at the first choice point;
    is_switch(n) says whether the running thread is pre-empted at choice point number n (choice points are
    the scheduling decisions at which more than one thread is enabled).  Returns the per-thread outcomes
    ('ok', value) / (exception class name, None) and whether a deadlock occurred."""
    n = len(gens)
    res = [None] * n
    done = [False] * n
    waiting = [False] * n
    pending = [None] * n

    def advance(t):
        CUR[0] = t
        try:
            r = next(gens[t])
            pending[t] = r
            waiting[t] = r[0] in ('want', 'blocked')
        except StopIteration as e:
            res[t] = ('ok', e.value)
            done[t] = True
        except KeyError:
            res[t] = ('KeyError', None)
            done[t] = True
        except (IndexError, RuntimeError, TypeError, ValueError, AttributeError) as e:
            res[t] = (type(e).__name__, None)
            done[t] = True
    for t in range(n):                      # prime every thread to its first yield (lock announcement for locked methods)
        advance(t)

    def enabled(t):
        # a waiting thread waits for the lock OBJECT it evaluated (code under test may rebind self._lock).  A thread
        # that reaches a with-statement while another thread holds the lock is taken to have evaluated the lock
        # expression and to be blocked inside acquire() on that object from then on; the moment is recorded as its
        # event for that line, so that the real-thread replay lets it run into the acquire at the same point.
        if done[t]:
            return False
        if not waiting[t]:
            return True
        p = pending[t]
        if p[0] == 'want':
            lk = p[2]()
            if lk.owner is not None and lk.owner != t:
                p[3][0] = lk
                pending[t] = ('blocked', p[1], lk)
                if record is not None:
                    record.append((t, p[1], 'bind'))
                return False
            return True
        lk = p[2]
        return not (lk.owner is not None and lk.owner != t)
    used = 0
    cur = None
    steps = 0
    while not all(done):
        en = [t for t in range(n) if enabled(t)]
        if not en:
            return res, True                # deadlock
        if len(en) > 1:
            if cur is None or cur not in en:
                t = en[first % len(en)] if cur is None else en[0]
            else:
                t = cur
                if is_switch(used):
                    others = [x for x in en if x != cur]
                    t = others[0]
                used += 1
        else:
            t = en[0]
        cur = t
        if record is not None and pending[t] is not None and pending[t][0] != 'blocked':
            record.append((t, pending[t][1]))
        advance(t)
        steps += 1
        if steps > 2000:
            return res, True
    CUR[0] = 0
    return res, False


# ---------------------------------------------------------------------------- real-thread replay
def real_thread_replay(module, make_cache, ops, order, timeout=5.0):
    """Run the operations on REAL threads against the UNTRANSFORMED class, forcing the global order of
    (thread, source line) events recorded from the model run: each thread runs under sys.settrace and blocks at a
    'line' event whose line number is its next expected event until the global order reaches it."""
    cache = make_cache()
    cond = threading.Condition()
    pos = [0]
    res = [None] * len(ops)
    order = [tuple(e) for e in order]
    expected = {t: [e[1] for e in order if e[0] == t] for t in range(len(ops))}
    idx = {t: 0 for t in range(len(ops))}
    stuck = []
    fname = module.__file__

    def make_tracer(t):
        def local(frame, event, arg):
            if event == 'line' and idx[t] < len(expected[t]) and frame.f_lineno == expected[t][idx[t]]:
                with cond:
                    ok = cond.wait_for(lambda: pos[0] < len(order) and order[pos[0]][0] == t, timeout=timeout)
                    if not ok:
                        stuck.append((t, frame.f_lineno, pos[0]))
                        return None
                    if pos[0] > 0 and len(order[pos[0] - 1]) > 2 and order[pos[0] - 1][0] != t:
                        # the previous event let another thread run into a blocking acquire(): give it time to get there
                        time.sleep(0.05)
                    pos[0] += 1
                    idx[t] += 1
                    cond.notify_all()
            return local

        def tracer(frame, event, arg):
            if frame.f_code.co_filename == fname:
                return local(frame, event, arg) or local
            return None
        return tracer

    def worker(t):
        sys.settrace(make_tracer(t))
        try:
            res[t] = ('ok', ops[t](cache))
        except Exception as e:
            res[t] = (type(e).__name__, None)
        finally:
            sys.settrace(None)
            with cond:
                cond.notify_all()
    ths = [threading.Thread(target=worker, args=(t,)) for t in range(len(ops))]
    for th in ths:
        th.start()
    for th in ths:
        th.join(timeout * 4)
    return cache, res, stuck, pos[0]

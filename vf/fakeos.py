"""In-memory POSIX model used as the environment stub for boltons.fileutils (C04, C05).

Trusted base of those checks.  Names map to inodes; an inode has `kernel` bytes (what
write(2) delivered), a `durable` prefix length (advanced only by fsync) and a mode.  File
objects buffer in user space until flush/close (or when the buffer exceeds `buflimit`).
Every call ticks a step counter:
  * crash mode: the call whose tick equals `crash_at` raises Crash (a BaseException) instead
    of executing - the process dies there;
  * fault mode: calls whose tick is in `fault_at` raise OSError instead of executing
    (stat / lexists are not fault sites: fileutils swallows them by design).
Directory operations (create, rename, link, unlink) are atomic, ordered and durable.
"""
import errno
import os as real_os
import stat as real_stat


class Crash(BaseException):
    pass


class ModelGap(BaseException):
    """the code under test used an os facility this model does not have: harness error, never a violation"""


class Inode:
    def __init__(self, mode, data=b''):
        self.kernel = data
        self.durable = len(data)
        self.mode = mode
        self.log = []            # events on this inode, in order


class FakeFS:
    NOFAULT = ('stat', 'lexists')

    def __init__(self, crash_at=-1, fault_at=(), umask=0o022, buflimit=1000, racer=None):
        self.names = {}
        self.crash_at = crash_at
        self.fault_at = tuple(fault_at)
        self.step = 0
        self.umask = umask
        self.buflimit = buflimit
        self.log = []
        self.faulted = []
        self.racer = racer          # (tick, callable) run once when the tick counter reaches tick
        self.cloexec_calls = 0

    def tick(self, what):
        if self.racer is not None and self.step >= self.racer[0]:
            r, self.racer = self.racer[1], None
            r(self)
        step = self.step
        self.step += 1
        self.log.append(what)
        if step == self.crash_at:
            raise Crash(what)
        if step in self.fault_at and what not in self.NOFAULT:
            self.faulted.append(what)
            code = {'open': errno.EACCES, 'chmod': errno.EPERM, 'write': errno.ENOSPC, 'flush': errno.ENOSPC,
                    'fsync': errno.EIO, 'close': errno.EIO, 'rename': errno.EACCES, 'link': errno.EPERM,
                    'unlink': errno.EACCES, 'fdopen': errno.ENOMEM}.get(what, errno.EIO)
            raise OSError(code, 'injected fault in ' + what)


class FakeFile:
    def __init__(self, fs, ino, text):
        self.fs, self.ino, self.text = fs, ino, text
        self.buf = b''
        self.closed = False
        self.pos = 0                 # file offset of the descriptor: a fresh descriptor starts at 0, also on an existing inode

    def _drain(self):
        if self.buf:
            k = self.ino.kernel
            self.ino.kernel = k[:self.pos] + self.buf + k[self.pos + len(self.buf):]
            if self.pos < self.ino.durable:
                self.ino.durable = self.pos       # overwritten bytes are no longer known to be on disk
            self.pos += len(self.buf)
            self.buf = b''
            self.ino.log.append('write(2)')

    def write(self, data):
        if self.closed:
            raise ValueError('I/O operation on closed file')
        if self.text:
            if not isinstance(data, str):
                raise TypeError('write() argument must be str')
            data = data.encode('utf-8')
        elif isinstance(data, str):
            raise TypeError('a bytes-like object is required')
        self.fs.tick('write')
        self.ino.log.append('write')
        self.buf = self.buf + data
        if len(self.buf) > self.fs.buflimit:
            self._drain()
        return len(data)

    def flush(self):
        if self.closed:
            raise ValueError('I/O operation on closed file')
        self.fs.tick('flush')
        self._drain()
        self.ino.log.append('flush')

    def fileno(self):
        if self.closed:
            raise ValueError('I/O operation on closed file')
        return self

    def close(self):
        if self.closed:
            return
        self.closed = True           # like CPython: the descriptor is gone even if the final flush fails
        self.fs.tick('close')
        self._drain()
        self.ino.log.append('close')

    def __enter__(self):
        return self

    def __exit__(self, *a):
        self.close()


class FakeTextFile:
    """text layer over a binary FakeFile (like io.TextIOWrapper over a BufferedWriter): characters
    written here are pending in the text layer until flush()/close() hands them to `.buffer`"""

    def __init__(self, fs, ino):
        self.fs = fs
        self.buffer = FakeFile(fs, ino, False)
        self.pending = ''
        self.closed = False
        self.encoding = 'utf-8'

    def _push(self):
        if self.pending:
            data = self.pending.encode('utf-8')
            self.pending = ''
            self.buffer.buf = self.buffer.buf + data
            if len(self.buffer.buf) > self.fs.buflimit:
                self.buffer._drain()

    def write(self, data):
        if self.closed:
            raise ValueError('I/O operation on closed file')
        if not isinstance(data, str):
            raise TypeError('write() argument must be str')
        self.fs.tick('write')
        self.buffer.ino.log.append('write')
        self.pending = self.pending + data
        if len(self.pending) > self.fs.buflimit:
            self._push()
        return len(data)

    def flush(self):
        if self.closed:
            raise ValueError('I/O operation on closed file')
        self._push()
        self.buffer.flush()

    def fileno(self):
        return self.buffer.fileno()

    def close(self):
        if self.closed:
            return
        self.closed = True
        if self.pending:
            self.buffer.ino.log.append('write')      # late hand-over of pending text counts as a write event
        self._push()
        self.buffer.close()

    def __enter__(self):
        return self

    def __exit__(self, *a):
        self.close()


class FakePath:
    def __init__(self, fs):
        self.fs = fs

    def abspath(self, p):
        return p

    def dirname(self, p):
        return real_os.path.dirname(p)

    def basename(self, p):
        return real_os.path.basename(p)

    def join(self, *a):
        return real_os.path.join(*a)

    def lexists(self, p):
        self.fs.tick('lexists')
        return p in self.fs.names

    exists = lexists

    def isfile(self, p):
        self.fs.tick('lexists')
        return p in self.fs.names

    def normpath(self, p):
        return real_os.path.normpath(p)

    def realpath(self, p):
        return p

    def split(self, p):
        return real_os.path.split(p)

    def splitext(self, p):
        return real_os.path.splitext(p)

    def __getattr__(self, name):
        if name.startswith('__'):
            raise AttributeError(name)
        raise ModelGap('os.path.%s is not modelled by vf.fakeos' % name)


class FakeOS:
    name = 'posix'
    O_RDWR, O_CREAT, O_EXCL = real_os.O_RDWR, real_os.O_CREAT, real_os.O_EXCL
    O_WRONLY, O_TRUNC = real_os.O_WRONLY, real_os.O_TRUNC
    SEEK_SET, SEEK_END, SEEK_CUR = 0, 2, 1
    error = OSError
    sep = '/'

    def __init__(self, fs):
        self.fs = fs
        self.path = FakePath(fs)

    def stat(self, p):
        self.fs.tick('stat')
        if p not in self.fs.names:
            raise FileNotFoundError(errno.ENOENT, 'No such file or directory', p)

        class R:
            pass
        r = R()
        r.st_mode = real_stat.S_IFREG | self.fs.names[p].mode
        return r

    def open(self, p, flags, mode=0o777):
        self.fs.tick('open')
        mode = int(mode)
        if p in self.fs.names:
            if flags & real_os.O_EXCL:
                raise FileExistsError(errno.EEXIST, 'File exists', p)
            ino = self.fs.names[p]
            if flags & real_os.O_TRUNC:
                ino.kernel = b''
                ino.durable = 0
                ino.log.append('truncate')
        else:
            if not flags & real_os.O_CREAT:
                raise FileNotFoundError(errno.ENOENT, 'No such file or directory', p)
            ino = self.fs.names[p] = Inode(mode & ~self.fs.umask)
            ino.log.append('create')
        return ino

    def fdopen(self, fd, mode='r', buffering=-1):
        self.fs.tick('fdopen')
        if 'b' not in mode:
            return FakeTextFile(self.fs, fd)
        return FakeFile(self.fs, fd, False)

    def chmod(self, p, mode):
        self.fs.tick('chmod')
        if p not in self.fs.names:
            raise FileNotFoundError(errno.ENOENT, 'No such file or directory', p)
        self.fs.names[p].mode = int(mode) & 0o7777

    def unlink(self, p):
        self.fs.tick('unlink')
        if p not in self.fs.names:
            raise FileNotFoundError(errno.ENOENT, 'No such file or directory', p)
        self.fs.names[p].log.append('unlink')
        del self.fs.names[p]

    remove = unlink

    def rename(self, a, b):
        self.fs.tick('rename')
        if a not in self.fs.names:
            raise FileNotFoundError(errno.ENOENT, 'No such file or directory', a)
        self.fs.names[a].log.append('rename')
        self.fs.names[b] = self.fs.names.pop(a)

    replace = rename

    def link(self, a, b):
        self.fs.tick('link')
        if a not in self.fs.names:
            raise FileNotFoundError(errno.ENOENT, 'No such file or directory', a)
        if b in self.fs.names:
            raise FileExistsError(errno.EEXIST, 'File exists', b)
        self.fs.names[a].log.append('link')
        self.fs.names[b] = self.fs.names[a]

    def fsync(self, f):
        self.fs.tick('fsync')
        if isinstance(f, FakeTextFile):
            f = f.buffer
        if isinstance(f, FakeFile):
            f = f.ino
        if isinstance(f, Inode):
            f.durable = len(f.kernel)
            f.log.append('fsync')

    fdatasync = fsync

    # raw descriptor calls (the "descriptor" handed out by open() is the inode itself)
    def close(self, fd):
        self.fs.tick('close')
        if not isinstance(fd, Inode):
            raise OSError(errno.EBADF, 'Bad file descriptor')
        fd.log.append('close(fd)')

    def write(self, fd, data):
        self.fs.tick('write')
        if not isinstance(fd, Inode):
            raise OSError(errno.EBADF, 'Bad file descriptor')
        fd.kernel = fd.kernel + bytes(data)
        fd.log.append('write')
        fd.log.append('write(2)')
        return len(data)

    def ftruncate(self, fd, length):
        self.fs.tick('ftruncate')
        ino = fd.ino if isinstance(fd, FakeFile) else fd
        ino.kernel = ino.kernel[:length] + b'\0' * max(0, length - len(ino.kernel))
        ino.durable = min(ino.durable, length)

    def fstat(self, fd):
        ino = fd.ino if isinstance(fd, FakeFile) else fd

        class R:
            pass
        r = R()
        r.st_mode = real_stat.S_IFREG | ino.mode
        r.st_size = len(ino.kernel)
        return r

    def fchmod(self, fd, mode):
        self.fs.tick('chmod')
        ino = fd.ino if isinstance(fd, FakeFile) else fd
        ino.mode = int(mode) & 0o7777

    def getpid(self):
        return 4242

    def fspath(self, p):
        return real_os.fspath(p)

    def __getattr__(self, name):
        if name.startswith('__'):
            raise AttributeError(name)
        if name.startswith('O_') or name.startswith('SEEK_') or name in ('EX_OK', 'F_OK', 'R_OK', 'W_OK', 'X_OK', 'linesep', 'curdir', 'pardir', 'extsep'):
            return getattr(real_os, name)
        raise ModelGap('os.%s is not modelled by vf.fakeos' % name)


def install(fu, fs):
    """point boltons.fileutils at the fake OS; returns an undo function"""
    saved = (fu.os, fu.set_cloexec)
    fu.os = FakeOS(fs)

    def _cloexec(fd):
        fs.cloexec_calls += 1
    fu.set_cloexec = _cloexec

    def undo():
        fu.os, fu.set_cloexec = saved
    return undo

"""Harness-side repairs of CrossHair 0.0.110 models (no repo change).

1. relib._Match.groupdict drops unmatched named groups and returns raw (start, end)
   ranges instead of strings; `re` documents {name: matched text or default}.
2. simplestructs.ShellMutableSet.__sub__/__rsub__ (what `set(...)` returns under
   tracing) build a *lazy* difference that keeps a live reference to the mutable
   operand, so `d = a - b; b -= a` changes d afterwards (found with
   ManyToMany.__setitem__: counterexample that did not replay).  The shim
   snapshots the operand exactly as the sibling operators (__or__, __and__) do.
3. builtinslib._dict_get (the patch for dict.get) copies a dict through self.items();
   for a dict *subclass* that overrides items() (OrderedMultiDict: (key, last value))
   that is not the stored mapping, so super().get(k, [d])[-1] subscripted an int.
   The shim reads the storage with dict.items(self).
4. relib models `$` (AT_END without re.MULTILINE) as "end of string" only; `re` also
   matches just before a single trailing newline (found when a seeded change replaced a
   search for unsafe characters by `^[safe]+$`.match and the check missed 'abc\n').
   The shim re-compiles relib._internal_match_patterns from its own source with that
   case added.
"""


def install():
    from crosshair.libimpl import relib

    def _groupdict(self, default=None):
        return {name: (self.group(name) if self._groups[idx] is not None else default)
                for name, idx in self.re.groupindex.items()}
    relib._Match.groupdict = _groupdict

    import operator  # noqa
    from crosshair import simplestructs as ss
    from crosshair.tracers import NoTracing

    def _sub(self, x):
        with NoTracing():
            if not isinstance(x, ss.AbcSet):
                return NotImplemented
            return ss.ShellMutableSet(
                ss.LazySetCombination(lambda a, b: (a and not b), self._inner, ss._force_arg_to_set(x)))

    def _rsub(self, x):
        with NoTracing():
            if not isinstance(x, ss.AbcSet):
                return NotImplemented
            return ss.ShellMutableSet(
                ss.LazySetCombination(lambda a, b: (b and not a), self._inner, ss._force_arg_to_set(x)))
    ss.ShellMutableSet.__sub__ = _sub
    ss.ShellMutableSet.__rsub__ = _rsub

    from crosshair import core as _core
    from crosshair.libimpl import builtinslib as _bl
    from crosshair.tracers import ResumedTracing

    def _dict_get(self, key, default=None):
        with NoTracing():
            if not isinstance(key, (int, float, str)):
                if not isinstance(self, dict):
                    raise TypeError
                symbolic_self = _bl.SimpleDict(list(dict.items(self)))
                with ResumedTracing():
                    return symbolic_self.get(key, default)
        return dict.get(self, key, default)
    _core._PATCH_REGISTRATIONS[dict.get] = _dict_get

    import inspect
    import textwrap
    src = inspect.getsource(relib._internal_match_patterns)
    old = """            if arg is AT_END and re.MULTILINE & flags:
                with ResumedTracing():
                    next_char = ord(string[offset])
                return fork_on(
                    SymbolicInt._coerce_to_smt_sort(next_char) == ord("\\n"), 0
                )
            return None
"""
    new = """            if arg is AT_END:
                with ResumedTracing():
                    next_char = ord(string[offset])
                if re.MULTILINE & flags:
                    return fork_on(
                        SymbolicInt._coerce_to_smt_sort(next_char) == ord("\\n"), 0
                    )
                # not MULTILINE: `$` also matches just before one final newline
                if space.smt_fork(SymbolicInt._coerce_to_smt_sort(matchable_len) == 1):
                    return fork_on(
                        SymbolicInt._coerce_to_smt_sort(next_char) == ord("\\n"), 0
                    )
            return None
"""
    if old not in src:
        raise RuntimeError('CrossHair relib source changed: cannot install the `$` shim')
    ns = relib.__dict__
    exec(compile(textwrap.dedent(src.replace(old, new)), relib.__file__, 'exec'), ns)

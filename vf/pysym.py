"""E2: a small AST-walking symbolic interpreter for a Python subset, producing z3 terms.

The function under analysis is read with inspect.getsource from the imported repository module
on every run; nothing is cached.  Supported statements: Assign (names, tuple targets), AugAssign,
If, While (bounded unrolling; a path that wants one more iteration than the bound is reported
as `cut`, never silently dropped), Expr(Yield), Raise, Return, Pass, docstrings.  Expressions:
constants, names, + - * / %, unary -/not, comparisons (chains), and/or (short-circuit forking),
IfExp, calls of float(), two-argument min()/max(), random.random(), math.log(x, base), math.ceil(x) (the last three
through pluggable models).  Anything else raises Unsupported (the check then exits with the
harness-error code: a refactoring can make the check inconclusive, never silently wrong).

Values are Python constants (None, bool, str, int) or z3 terms (Int / Real / Bool).
Exploration is a DFS over decision vectors with a feasibility query per symbolic branch.
"""
import ast
import inspect
import textwrap
import z3


class Unsupported(Exception):
    pass


class Raised(Exception):
    def __init__(self, name):
        self.name = name


class Infeasible(Exception):
    pass


class Cut(Exception):
    """unwinding bound reached"""


class Returned(Exception):
    pass


class Path:
    def __init__(self, assumptions=()):
        self.cond = list(assumptions)
        self.out = []          # yielded terms
        self.exc = None        # name of the raised exception class, or None
        self.cut = False
        self.nrandom = 0
        self.aux = {}          # model-specific side data (e.g. the uninterpreted log value)


def is_sym(v):
    return isinstance(v, z3.ExprRef)


class Interp:
    def __init__(self, fn, unroll, decisions, models=None, solver_timeout_ms=20000, stats=None, fp=False):
        src = textwrap.dedent(inspect.getsource(fn))
        self.fdef = ast.parse(src).body[0]
        if not isinstance(self.fdef, ast.FunctionDef):
            raise Unsupported('not a function definition')
        self.unroll = unroll
        self.decisions = decisions
        self.di = 0
        self.models = models or {}
        self.timeout = solver_timeout_ms
        self.stats = stats if stats is not None else {}
        self.fp = fp            # IEEE-754 double semantics (z3 FP terms, RNE); branches are not pruned by feasibility queries

    # ---------------------------------------------------------------- branching
    def branch(self, c, path):
        if isinstance(c, bool):
            return c
        c = z3.simplify(c)
        if z3.is_true(c):
            return True
        if z3.is_false(c):
            return False
        if self.di < len(self.decisions):
            d = self.decisions[self.di]
            if self.di == len(self.decisions) - 1 and not self.fp:
                # the last recorded decision is the flipped alternative scheduled by the explorer: it may be infeasible
                s = z3.Solver()
                s.set('timeout', self.timeout)
                s.add(*path.cond)
                s.add(c if d else z3.Not(c))
                r = s.check()
                self.stats['queries'] = self.stats.get('queries', 0) + 1
                if r == z3.unknown:
                    raise Unsupported('solver returned unknown on a feasibility query')
                if r == z3.unsat:
                    raise Infeasible()
        elif self.fp:
            d = True                 # explore both sides syntactically; infeasible paths give unsat obligations later
            self.decisions.append(d)
        else:
            d = None
            for cand in (True, False):
                s = z3.Solver()
                s.set('timeout', self.timeout)
                s.add(*path.cond)
                s.add(c if cand else z3.Not(c))
                r = s.check()
                self.stats['queries'] = self.stats.get('queries', 0) + 1
                if r == z3.unknown:
                    raise Unsupported('solver returned unknown on a feasibility query')
                if r == z3.sat:
                    d = cand
                    break
            if d is None:
                raise Infeasible()
            self.decisions.append(d)
        self.di += 1
        path.cond.append(c if d else z3.Not(c))
        return d

    # ---------------------------------------------------------------- expressions
    def truth(self, v):
        if isinstance(v, bool):
            return v
        if v is None:
            return False
        if isinstance(v, (str, int, float)):
            return bool(v)
        if z3.is_bool(v):
            return v
        if self.fp and z3.is_fp(v):
            return z3.Not(z3.fpIsZero(v))
        return v != 0

    def num(self, v):
        if self.fp:
            if isinstance(v, (bool, int, float)):
                return z3.FPVal(float(v), z3.Float64())
            return v
        if isinstance(v, bool):
            return z3.IntVal(int(v))
        if isinstance(v, int):
            return z3.IntVal(v)
        if isinstance(v, float):
            return z3.RealVal(repr(v))
        return v

    def ev(self, node, env, path):
        if isinstance(node, ast.Constant):
            v = node.value
            if isinstance(v, float):
                return z3.FPVal(v, z3.Float64()) if self.fp else z3.RealVal(repr(v))
            return v
        if isinstance(node, ast.Name):
            if node.id not in env:
                raise Unsupported('unknown name %s' % node.id)
            return env[node.id]
        if isinstance(node, ast.BinOp):
            a, b = self.ev(node.left, env, path), self.ev(node.right, env, path)
            if isinstance(a, str) or isinstance(b, str):
                if isinstance(node.op, ast.Mod):
                    return '<formatted message>'
                raise Unsupported('string arithmetic')
            a, b = self.num(a), self.num(b)
            if isinstance(node.op, ast.Add):
                return a + b
            if isinstance(node.op, ast.Sub):
                return a - b
            if isinstance(node.op, ast.Mult):
                return a * b
            if isinstance(node.op, ast.Div):
                if z3.is_int(a):
                    a = z3.ToReal(a)
                if z3.is_int(b):
                    b = z3.ToReal(b)
                return a / b
            raise Unsupported(ast.dump(node.op))
        if isinstance(node, ast.UnaryOp):
            v = self.ev(node.operand, env, path)
            if isinstance(node.op, ast.Not):
                t = self.truth(v)
                return (not t) if isinstance(t, bool) else z3.Not(t)
            if isinstance(node.op, ast.USub):
                return -self.num(v)
            raise Unsupported(ast.dump(node.op))
        if isinstance(node, ast.BoolOp):
            if isinstance(node.op, ast.Or):
                for v in node.values:
                    if self.branch(self.truth(self.ev(v, env, path)), path):
                        return True
                return False
            for v in node.values:
                if not self.branch(self.truth(self.ev(v, env, path)), path):
                    return False
            return True
        if isinstance(node, ast.Compare):
            left = self.ev(node.left, env, path)
            res = []
            for op, comp in zip(node.ops, node.comparators):
                right = self.ev(comp, env, path)
                res.append(self.cmp(op, left, right))
                left = right
            if len(res) == 1:
                return res[0]
            if all(isinstance(r, bool) for r in res):
                return all(res)
            return z3.And(*[z3.BoolVal(r) if isinstance(r, bool) else r for r in res])
        if isinstance(node, ast.Call):
            fn = ast.unparse(node.func)
            args = [self.ev(a, env, path) for a in node.args]
            if fn == 'float':
                a = args[0]
                if self.fp:
                    return self.num(a)
                if isinstance(a, bool):
                    return z3.RealVal(int(a))
                if isinstance(a, (int, float)):
                    return z3.RealVal(repr(a))
                return z3.ToReal(a) if z3.is_int(a) else a
            if fn in ('min', 'max') and len(args) == 2 and not node.keywords:
                # two-argument min/max: fork on the comparison (like Python: min returns the first argument on ties)
                a, b = args
                if isinstance(a, (int, float)) and isinstance(b, (int, float)) and not isinstance(a, bool) and not isinstance(b, bool):
                    return min(a, b) if fn == 'min' else max(a, b)
                first_wins = self.branch(self.cmp(ast.LtE() if fn == 'min' else ast.GtE(), a, b), path)
                return a if first_wins else b
            if fn in self.models:
                return self.models[fn](self, path, *args)
            raise Unsupported('call of %s' % fn)
        if isinstance(node, ast.IfExp):
            t = self.branch(self.truth(self.ev(node.test, env, path)), path)
            return self.ev(node.body if t else node.orelse, env, path)
        raise Unsupported(ast.dump(node)[:80])

    def cmp(self, op, a, b):
        if isinstance(a, str) or isinstance(b, str) or a is None or b is None:
            if a is None or b is None:
                eq = a is b
            elif isinstance(a, str) and isinstance(b, str):
                eq = a == b
            else:
                eq = False
            if isinstance(op, (ast.Eq, ast.Is)):
                return eq
            if isinstance(op, (ast.NotEq, ast.IsNot)):
                return not eq
            raise Unsupported('ordering comparison with None/str')
        a, b = self.num(a), self.num(b)
        if self.fp and z3.is_fp(a):
            ftable = {ast.Lt: z3.fpLT, ast.LtE: z3.fpLEQ, ast.Gt: z3.fpGT, ast.GtE: z3.fpGEQ, ast.Eq: z3.fpEQ,
                      ast.NotEq: lambda x, y: z3.Not(z3.fpEQ(x, y))}
            if type(op) not in ftable:
                raise Unsupported(ast.dump(op))
            return ftable[type(op)](a, b)
        table = {ast.Lt: lambda: a < b, ast.LtE: lambda: a <= b, ast.Gt: lambda: a > b, ast.GtE: lambda: a >= b,
                 ast.Eq: lambda: a == b, ast.NotEq: lambda: a != b}
        if type(op) not in table:
            raise Unsupported(ast.dump(op))
        return table[type(op)]()

    # ---------------------------------------------------------------- statements
    def block(self, stmts, env, path):
        for st in stmts:
            if isinstance(st, ast.Expr) and isinstance(st.value, ast.Constant):
                continue
            if isinstance(st, ast.Pass):
                continue
            if isinstance(st, ast.Assign):
                tgt = st.targets[0]
                if isinstance(tgt, ast.Tuple):
                    if not isinstance(st.value, ast.Tuple) or len(st.value.elts) != len(tgt.elts):
                        raise Unsupported('tuple assignment shape')
                    vals = [self.ev(v, env, path) for v in st.value.elts]
                    for t, v in zip(tgt.elts, vals):
                        env[t.id] = v
                else:
                    v = self.ev(st.value, env, path)
                    for t in st.targets:
                        if not isinstance(t, ast.Name):
                            raise Unsupported('assignment target')
                        env[t.id] = v
            elif isinstance(st, ast.AugAssign):
                if not isinstance(st.target, ast.Name):
                    raise Unsupported('augmented assignment target')
                cur = self.num(env[st.target.id])
                v = self.num(self.ev(st.value, env, path))
                if isinstance(st.op, ast.Mult):
                    env[st.target.id] = cur * v
                elif isinstance(st.op, ast.Add):
                    env[st.target.id] = cur + v
                elif isinstance(st.op, ast.Sub):
                    env[st.target.id] = cur - v
                else:
                    raise Unsupported('augmented operator')
            elif isinstance(st, ast.If):
                c = self.truth(self.ev(st.test, env, path))
                self.block(st.body if self.branch(c, path) else st.orelse, env, path)
            elif isinstance(st, ast.While):
                n = 0
                while True:
                    c = self.truth(self.ev(st.test, env, path))
                    if not self.branch(c, path):
                        break
                    if n >= self.unroll:
                        raise Cut()
                    self.block(st.body, env, path)
                    n += 1
            elif isinstance(st, ast.Expr) and isinstance(st.value, ast.Yield):
                path.out.append(self.num(self.ev(st.value.value, env, path)))
            elif isinstance(st, ast.Raise):
                name = ast.unparse(st.exc.func) if isinstance(st.exc, ast.Call) else ast.unparse(st.exc)
                raise Raised(name)
            elif isinstance(st, ast.Return):
                raise Returned()
            else:
                raise Unsupported(ast.dump(st)[:80])


def explore(fn, unroll, make_env, models=None, max_paths=5000, stats=None, fp=False):
    """DFS over decision vectors; returns (paths, n_infeasible)"""
    stats = stats if stats is not None else {}
    stack = [[]]
    paths = []
    infeasible = 0
    while stack:
        dec = stack.pop()
        it = Interp(fn, unroll, list(dec), models=models, stats=stats, fp=fp)
        env, assumptions = make_env()
        path = Path(assumptions)
        dead = False
        try:
            it.block(it.fdef.body, env, path)
        except Raised as r:
            path.exc = r.name
        except Returned:
            pass
        except Cut:
            path.cut = True
        except Infeasible:
            infeasible += 1
            dead = True
        if not dead:
            paths.append(path)
            if len(paths) > max_paths:
                raise Unsupported('too many paths')
        for i in range(len(dec), len(it.decisions)):
            stack.append(it.decisions[:i] + [not it.decisions[i]])
    stats['paths'] = stats.get('paths', 0) + len(paths)
    stats['infeasible'] = stats.get('infeasible', 0) + infeasible
    return paths, infeasible

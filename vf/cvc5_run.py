"""Run one SMT-LIB file through cvc5 and print its answers (one process per query, killed by the caller on timeout).

Uses the cvc5 1.4 Python wheel of the overlay venv (it decides the QF_FP obligations of C15 in seconds where the
1.0 binary on PATH times out); falls back to the binary when the wheel is missing.
usage: python -m vf.cvc5_run <file.smt2> <time limit in s>
"""
import sys
import subprocess


def main():
    fname, tlimit = sys.argv[1], float(sys.argv[2])
    try:
        import cvc5
    except ImportError:
        out = subprocess.run(['cvc5', '--tlimit=%d' % int(tlimit * 1000), fname], capture_output=True, text=True).stdout
        sys.stdout.write('ENGINE cvc5-binary\n' + out)
        return
    s = cvc5.Solver()
    s.setOption('tlimit', str(int(tlimit * 1000)))
    p = cvc5.InputParser(s)
    p.setFileInput(cvc5.InputLanguage.SMT_LIB_2_6, fname)
    sm = p.getSymbolManager()
    sys.stdout.write('ENGINE cvc5-%s\n' % cvc5.__version__)
    while True:
        c = p.nextCommand()
        if c.isNull():
            break
        r = str(c.invoke(s, sm)).strip()
        if r:
            sys.stdout.write(r + '\n')
            sys.stdout.flush()


if __name__ == '__main__':
    main()

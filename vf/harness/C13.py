"""C13 funcutils.wraps preserves the wrapped function's signature and call behaviour.

Engine E1.
(a) value-symbolic: FunctionBuilder.remove_arg / add_arg / get_defaults_dict on builders whose
    default VALUES are symbolic ints and whose arity, number of defaults and removed/added
    parameter are solver-chosen: every remaining default stays attached to its parameter.
(b) structure-symbolic: a signature family (positional count, defaults, *args, keyword-only
    with default mask, **kwargs, annotations, async) is chosen by the solver, the function is
    created with exec, wrapped with wraps/update_wrapper (plain, injected=, expected=), and for
    EVERY call shape (0..4 positionals x every subset of 6 keyword names) the outcome (bound
    arguments or TypeError) of the wrapper is compared with the original.
"""
import inspect
import asyncio
from boltons.funcutils import wraps, update_wrapper, FunctionBuilder, NO_DEFAULT
from vf.rt import cz, pin, pinval, assume, fail, done, notrace
from vf.check import Ob

PROPERTY = 'C13'
TARGETS = ['boltons.funcutils.wraps', 'boltons.funcutils.update_wrapper', 'boltons.funcutils.FunctionBuilder.from_func',
           'boltons.funcutils.FunctionBuilder.get_sig_str', 'boltons.funcutils.FunctionBuilder.get_invocation_str',
           'boltons.funcutils.FunctionBuilder.get_func', 'boltons.funcutils.FunctionBuilder._compile',
           'boltons.funcutils.FunctionBuilder.remove_arg', 'boltons.funcutils.FunctionBuilder.add_arg',
           'boltons.funcutils.FunctionBuilder.get_defaults_dict', 'boltons.funcutils.FunctionBuilder.get_arg_names',
           'boltons.funcutils.inspect_formatargspec']
BOUNDS = {  # annotations: first positional, *args, keyword-only, **kw and return (all or none)

    'quick': {'signatures': '0..3 positional-or-keyword (0..n defaults), *args, 0..2 keyword-only (any default mask), **kwargs, annotations on/off, sync/async',
              'call shapes': '0..4 positional arguments x every subset of {a, b, c, k, l, zz} as keywords',
              'modes': 'plain, injected=<each parameter>, expected=<new name with/without default>, hide_wrapped',
              'builder': 'arity <= 4, keyword-only <= 2, symbolic default values'},
    'thorough': {'signatures': '0..4 positional-or-keyword'},
}
ASSUMPTIONS = ['defaults are int literals', 'the solver enumerates the signature family (structure-symbolic); argument and default values in (a) are symbolic']
OUT_OF_CLAIM = ['positional-only parameters', 'non-literal defaults', 'partial objects, methods, classmethods']
STUBS = []

POS = ['a', 'b', 'c', 'd']
KWO = ['k', 'l']


# ------------------------------------------------------------------ (a) builder arithmetic with symbolic default values
def builder_law(npos: int, ndef: int, nkw: int, kwmask: int, d0: int, d1: int, d2: int, d3: int, e0: int, e1: int,
                victim: int, addkw: int, newdef: int, has_new_default: int) -> bool:
    """
    pre: 0 <= npos <= 4 and 0 <= ndef <= 4 and 0 <= nkw <= 2 and 0 <= kwmask <= 3
    post: _
    """
    npos = cz(npos, 0, 4)
    ndef = cz(ndef, 0, npos)
    nkw = cz(nkw, 0, 2)
    kwmask = cz(kwmask, 0, 2 ** nkw - 1)
    mode = pin('mode', 0, 0, 1)            # 0 remove, 1 add
    args = POS[:npos]
    dvals = [d0, d1, d2, d3][:ndef]
    kwonly = KWO[:nkw]
    kwdefs = {}
    for j, nm in enumerate(kwonly):
        if kwmask & (1 << j):
            kwdefs[nm] = [e0, e1][j]
    fb = FunctionBuilder('f', args=list(args), defaults=tuple(dvals) if dvals else None, kwonlyargs=list(kwonly),
                         kwonlydefaults=dict(kwdefs))
    before = {}
    for i, nm in enumerate(args):
        k = i - (npos - ndef)
        if k >= 0:
            before[nm] = dvals[k]
    before.update(kwdefs)
    got0 = fb.get_defaults_dict()
    if sorted(got0) != sorted(before):
        return fail('defaults_dict_keys')
    for nm in before:
        if not (got0[nm] == before[nm]):
            return fail('defaults_dict_values')
    names = args + kwonly
    if mode == 0:
        assume(len(names) > 0)
        victim = cz(victim, 0, len(names) - 1)
        name = names[victim]
        fb.remove_arg(name)
        after = fb.get_defaults_dict()
        exp = {k: v for k, v in before.items() if k != name}
        if sorted(after) != sorted(exp):
            return fail('remove_arg_default_attachment', 'removing %s from %r: defaults now on %r' % (name, names, sorted(after)))
        for nm in exp:
            if not (after[nm] == exp[nm]):
                return fail('remove_arg_default_value_moved', 'removing %s: default of %s changed' % (name, nm))
        if list(fb.get_arg_names()) != [n for n in names if n != name]:
            return fail('remove_arg_names')
        req = [n for n in names if n != name and n not in exp]
        if list(fb.get_arg_names(only_required=True)) != req:
            return fail('remove_arg_required_names')
        return done(True, kind='remove', npos=npos, ndef=ndef, nkw=nkw)
    addkw = cz(addkw, 0, 1)
    has_new_default = cz(has_new_default, 0, 1)
    if has_new_default:
        fb.add_arg('z', newdef, kwonly=bool(addkw))
    else:
        fb.add_arg('z', kwonly=bool(addkw))
    after = fb.get_defaults_dict()
    exp = dict(before)
    if has_new_default:
        exp['z'] = newdef
    if sorted(after) != sorted(exp):
        return fail('add_arg_default_attachment', 'adding z (default=%r, kwonly=%r) to %r with defaults on %r: defaults now on %r' % (
            bool(has_new_default), bool(addkw), names, sorted(before), sorted(after)))
    for nm in exp:
        if not (after[nm] == exp[nm]):
            return fail('add_arg_default_value_moved')
    if 'z' not in fb.get_arg_names() or len(fb.get_arg_names()) != len(names) + 1:
        return fail('add_arg_names')
    return done(True, kind='add', npos=npos, ndef=ndef, nkw=nkw)


# ------------------------------------------------------------------ (b) wraps over a signature family
def make_func(npos, ndef, varargs, nkw, kwmask, varkw, annot, is_async):
    parts = []
    for i, nm in enumerate(POS[:npos]):
        p = nm + (': int' if annot and i == 0 else '')
        if i >= npos - ndef:
            p += '=%d' % (10 + i)
        parts.append(p)
    if varargs:
        parts.append('*args' + (': int' if annot else ''))
    elif nkw:
        parts.append('*')
    for j, nm in enumerate(KWO[:nkw]):
        p = nm + ((': None' if (j == 0 and annot and (npos + ndef) % 2 == 1) else ': str') if annot else '')
        if kwmask & (1 << j):
            p += '=%d' % (20 + j)
        parts.append(p)
    if varkw:
        parts.append('**kw' + (': str' if annot else ''))
    # every other annotated signature uses None as an annotation VALUE (return and first keyword-only parameter)
    none_annot = annot and (npos + ndef) % 2 == 1
    ret = (' -> None' if none_annot else ' -> list') if annot else ''
    # every other signature has no docstring at all (__doc__ is None, which a wrapper must keep)
    doc = '    "doc of target"\n' if (npos + nkw + varargs) % 2 == 0 else ''
    src = '%sdef target(%s)%s:\n%s    return sorted(locals().items(), key=repr)\n' % ('async ' if is_async else '', ', '.join(parts), ret, doc)
    ns = {}
    exec(src, ns)
    return ns['target'], src


def call(fn, args, kws, is_async):
    try:
        r = fn(*args, **kws)
        if is_async:
            r = asyncio.run(r)
        return ('ok', r)
    except TypeError:
        return ('te', None)


CALL_KW = ['a', 'b', 'c', 'k', 'l', 'zz']


def all_call_shapes():
    for npos_call in range(0, 5):
        for mask in range(64):
            kws = {nm: 100 + i for i, nm in enumerate(CALL_KW) if mask & (1 << i)}
            yield list(range(1, npos_call + 1)), kws


def _wraps_body(sigparams, mode, target_idx, with_default):
    npos, ndef, varargs, nkw, kwmask, varkw, annot, is_async = sigparams
    f, src = make_func(*sigparams)
    sig_f = inspect.signature(f)
    names = list(sig_f.parameters)
    tag = 'signature %s mode=%s' % (src.splitlines()[0], mode)
    if mode in ('plain', 'hide', 'update_wrapper'):
        if is_async:
            async def inner(*a, **k):
                return await f(*a, **k)
        else:
            def inner(*a, **k):
                return f(*a, **k)
        if mode == 'update_wrapper':
            w = update_wrapper(inner, f)
        else:
            w = wraps(f, hide_wrapped=(mode == 'hide'))(inner)
        sig_w = inspect.signature(w, follow_wrapped=False)
        if sig_w != sig_f:
            return fail('signature_differs', '%s: %s vs %s' % (tag, sig_w, sig_f))
        if w.__name__ != f.__name__ or w.__doc__ != f.__doc__ or w.__module__ != f.__module__:
            return fail('metadata_differs', tag)
        if mode == 'hide':
            if hasattr(w, '__wrapped__'):
                return fail('hide_wrapped_ignored', tag)
        elif getattr(w, '__wrapped__', None) is not f:
            return fail('wrapped_attribute', tag)
        if inspect.iscoroutinefunction(w) != bool(is_async):
            return fail('async_flag', tag)
        for args, kws in all_call_shapes():
            exp = call(f, args, kws, is_async)
            got = call(w, args, kws, is_async)
            if exp != got:
                return fail('call_behaviour_differs', '%s call args=%r kws=%r: wrapper %r original %r' % (tag, args, kws, got, exp))
        if mode == 'plain':
            # stacked wrappers: wrapping the wrapper again must point at the wrapper, not at the innermost function
            if is_async:
                async def inner2(*a, **k):
                    return await w(*a, **k)
            else:
                def inner2(*a, **k):
                    return w(*a, **k)
            w2 = wraps(w)(inner2)
            if getattr(w2, '__wrapped__', None) is not w:
                return fail('wrapped_attribute_of_stacked_wrapper', tag)
            # wrapping again with hide_wrapped must not reach into the function being wrapped
            dict_before = dict(w.__dict__)
            w3 = wraps(w, hide_wrapped=True)(inner2)
            if hasattr(w3, '__wrapped__'):
                return fail('hide_wrapped_ignored', tag)
            if w.__dict__ != dict_before or getattr(w, '__wrapped__', None) is not f:
                return fail('wrapping_mutated_the_wrapped_function', '%s: __dict__ %r -> %r' % (tag, sorted(dict_before), sorted(w.__dict__)))
            if inspect.signature(w2, follow_wrapped=False) != sig_f or w2.__name__ != f.__name__:
                return fail('stacked_wrapper_signature', tag)
            for args, kws in list(all_call_shapes())[::5]:
                if call(f, args, kws, is_async) != call(w2, args, kws, is_async):
                    return fail('stacked_wrapper_call_behaviour', '%s call args=%r kws=%r' % (tag, args, kws))
        return done(True, kind='plain', sig=src.splitlines()[0])
    if mode == 'injected':
        real = [n for n in names if sig_f.parameters[n].kind in (inspect.Parameter.POSITIONAL_OR_KEYWORD, inspect.Parameter.KEYWORD_ONLY)]
        if not real:
            return None
        victim = real[target_idx % len(real)]

        def inner(*a, **k):
            return (a, k)
        # injected lists: the parameter alone; with a second real parameter; and, when **kw can absorb it, together with a
        # name that is not a parameter at all (before and after the real one)
        lists = [[victim]]
        other = real[(target_idx + 1) % len(real)]
        if other != victim:
            lists.append([victim, other])
        if varkw:
            lists.extend([['token', victim], [victim, 'token']])
        for inj in lists:
            w = wraps(f, injected=list(inj))(inner)
            sig_w = inspect.signature(w, follow_wrapped=False)
            exp_params = [p for n, p in sig_f.parameters.items() if n not in inj]
            if list(sig_w.parameters.values()) != exp_params:
                return fail('injected_signature', '%s removing %r: %s' % (tag, inj, sig_w))
            if sig_w.return_annotation != sig_f.return_annotation:
                return fail('injected_return_annotation', '%s removing %r: %s' % (tag, inj, sig_w))
        # injected and expected in one call: the new parameter is positional-or-keyword and every remaining default stays put
        w = wraps(f, injected=[victim], expected=['z'])(inner)
        sig_w = inspect.signature(w, follow_wrapped=False)
        rest = [p for n, p in sig_w.parameters.items() if n != 'z']
        if rest != [p for n, p in sig_f.parameters.items() if n != victim]:
            return fail('injected_expected_changed_other_parameters', '%s removing %s adding z: %s' % (tag, victim, sig_w))
        pz = sig_w.parameters.get('z')
        # a parameter without a default can only be positional when no remaining positional parameter has a default
        pos_defaults_left = any(p.kind == inspect.Parameter.POSITIONAL_OR_KEYWORD and p.default is not inspect.Parameter.empty
                                for n, p in sig_f.parameters.items() if n != victim)
        want_kind = inspect.Parameter.KEYWORD_ONLY if pos_defaults_left else inspect.Parameter.POSITIONAL_OR_KEYWORD
        if pz is None or pz.kind != want_kind or pz.default is not inspect.Parameter.empty:
            return fail('injected_expected_new_parameter', '%s removing %s adding z: %s' % (tag, victim, sig_w))
        return done(True, kind='injected', sig=src.splitlines()[0], victim=victim)
    # expected: a new parameter 'z'
    if is_async:
        async def inner(*a, **k):
            return (a, k)
    else:
        def inner(*a, **k):
            return (a, k)
    # the name is given as a bare string, in a list, or as a mapping key; 'zz' has two characters (a string is itself a
    # 2-iterable, so a careless (name, default) unpacking would split it)
    for spec in ((['zz'], {'zz': 55}) if not with_default else ([('zz', 55)],)):
        w2c = wraps(f, expected=spec if not (isinstance(spec, dict) and not with_default) else spec)(inner)
        s2 = inspect.signature(w2c, follow_wrapped=False)
        extra = [n for n in s2.parameters if n not in sig_f.parameters]
        if extra != ['zz']:
            return fail('expected_two_character_name', '%s expected=%r: %s' % (tag, spec, s2))
        dz = s2.parameters['zz'].default
        want = 55 if (with_default or isinstance(spec, dict)) else inspect.Parameter.empty
        if dz != want and not (dz is want):
            return fail('expected_two_character_default', '%s expected=%r: %s' % (tag, spec, s2))
    w = wraps(f, expected=[('z', 55)] if with_default else 'z')(inner)
    sig_w = inspect.signature(w, follow_wrapped=False)
    rest = [p for n, p in sig_w.parameters.items() if n != 'z']
    if rest != list(sig_f.parameters.values()):
        return fail('expected_changed_other_parameters', '%s adding z (default=%r): %s' % (tag, bool(with_default), sig_w))
    if 'z' not in sig_w.parameters:
        return fail('expected_parameter_missing', tag)
    pz = sig_w.parameters['z']
    if with_default and pz.default != 55:
        return fail('expected_default_lost', tag)
    if not with_default and pz.default is not inspect.Parameter.empty:
        return fail('expected_got_a_default', tag)
    # the wrapper receives z: calls valid for f plus z=... must reach inner with z bound
    for args, kws in list(all_call_shapes())[::7]:
        base = call(f, args, kws, is_async)
        if base[0] != 'ok' or len(args) > npos:
            continue
        kws2 = dict(kws)
        kws2['z'] = 77
        try:
            res = w(*args, **kws2)
            if is_async:
                res = asyncio.run(res)
            a2, k2 = res
        except TypeError:
            return fail('expected_call_rejected', '%s call args=%r kws=%r' % (tag, args, kws2))
        bound = sig_w.bind(*args, **kws2)
        if bound.arguments.get('z') != 77:
            return fail('expected_binding', tag)
    return done(True, kind='expected', sig=src.splitlines()[0])


MODES = ['plain', 'hide', 'update_wrapper', 'injected', 'expected']


def wraps_law(npos: int, ndef: int, varargs: int, nkw: int, kwmask: int, varkw: int, annot: int, target_idx: int, with_default: int) -> bool:
    """
    pre: 0 <= npos <= 4
    post: _
    """
    mode = MODES[pinval('mode', 0)]
    is_async = pinval('async', 0)
    npos = cz(npos, 0, pinval('pmax', 3))
    ndef = cz(ndef, 0, npos)
    varargs = cz(varargs, 0, 1)
    nkw = cz(nkw, 0, 2)
    kwmask = cz(kwmask, 0, 2 ** nkw - 1)
    varkw = cz(varkw, 0, 1)
    annot = cz(annot, 0, 1)
    if mode == 'injected':
        target_idx = cz(target_idx, 0, max(npos + nkw - 1, 0))
    else:
        target_idx = 0
    with_default = cz(with_default, 0, 1) if mode == 'expected' else 0
    with notrace():
        r = _wraps_body((npos, ndef, varargs, nkw, kwmask, varkw, annot, is_async), mode, target_idx, with_default)
    if r is None:
        assume(False)
    return r


def obligations(tier):
    obs = []
    q = tier == 'quick'
    T = 170 if q else 1500
    for mode in (0, 1):
        obs.append(Ob('builder_law', timeout=T, pins={'mode': mode}))
    for mi, mode in enumerate(MODES):
        for is_async in (0, 1):
            if is_async and mode in ('hide', 'update_wrapper') and q:
                continue
            obs.append(Ob('wraps_law', timeout=T, pins={'mode': mi, 'async': is_async, 'pmax': 3 if q else 4}))
    return obs

"""C12 BufferedSocket framing is independent of chunking; no byte lost or duplicated.

Engine E1 + a scripted socket and a harness clock installed as the module global `time` of
boltons.socketutils.  The solver chooses the byte-class pattern of the stream (delimiter
bytes vs. other), the script of receive calls and their size / maxsize arguments; for every
such choice the real methods are run under EVERY composition of the stream into chunks,
every recvsize 1..2, every position of one socket timeout and every position of one clock
jump past the deadline, and compared with the one-chunk delivery.
"""
import socket
import boltons.socketutils as su
from boltons.socketutils import BufferedSocket, NetstringSocket, Timeout, ConnectionClosed, MessageTooLong
from vf.rt import cz, pin, pinval, assume, fail, done, notrace
from vf.check import Ob

PROPERTY = 'C12'
TARGETS = ['boltons.socketutils.BufferedSocket.recv', 'boltons.socketutils.BufferedSocket.peek', 'boltons.socketutils.BufferedSocket.recv_close',
           'boltons.socketutils.BufferedSocket.recv_until', 'boltons.socketutils.BufferedSocket.recv_size', 'boltons.socketutils.BufferedSocket.send',
           'boltons.socketutils.BufferedSocket.sendall', 'boltons.socketutils.BufferedSocket.flush', 'boltons.socketutils.BufferedSocket.buffer',
           'boltons.socketutils.BufferedSocket.getrecvbuffer', 'boltons.socketutils.BufferedSocket.getsendbuffer',
           'boltons.socketutils.NetstringSocket.read_ns', 'boltons.socketutils.NetstringSocket.write_ns']
BOUNDS = {
    'quick': {'stream': '<= 4 bytes over {delimiter byte(s), other byte}', 'script': '2 receive calls (recv_until with/without delimiter and maxsize, recv_size, peek, recv, recv_close), sizes 0..4',
              'chunkings': 'all 2^(n-1)', 'recvsize': '1..2', 'timeouts': 'none or one socket.timeout at any recv, none or one clock jump past the deadline',
              'send': '<= 3 send/buffer/flush calls, every partial-send pattern', 'netstring': '2 payloads <= 2 bytes over {":", ",", digit, other}'},
    'thorough': {'stream': '<= 4 bytes with 2 calls; <= 2 bytes with 3 calls'},
}
ASSUMPTIONS = ['recv(n) is called repeatedly until n bytes or end of stream (any non-empty prefix is a legal return value)', 'the socket delivers the stream in order, each recv(n) returning at most n bytes of the next chunk; b"" means closed',
               'a call that raised Timeout is retried by the caller (statement)']
OUT_OF_CLAIM = ['read_ns retried after a Timeout in the middle of a message (the consumed size prefix is not restored)', 'real sockets, flags, non-blocking mode 0.0, several threads on one socket', 'longer streams']
STUBS = ['boltons.socketutils.time -> harness clock object', 'the socket is a scripted pure-Python object']


class FakeTime:
    def __init__(self, jump_at):
        self.now = 100.0
        self.calls = 0
        self.jump_at = jump_at

    def time(self):
        if self.calls == self.jump_at:
            self.now += 1000.0
        self.calls += 1
        self.now += 0.001
        return self.now


class FakeSock:
    def __init__(self, chunks, timeout_at=-1, send_pattern=()):
        self.chunks = list(chunks)
        self.timeout_at = timeout_at
        self.nrecv = 0
        self.delivered = b''
        self.sent = b''
        self.send_pattern = list(send_pattern)
        self.tmo = None

    def gettimeout(self):
        return self.tmo

    def settimeout(self, t):
        self.tmo = t

    def recv(self, n):
        i = self.nrecv
        self.nrecv += 1
        if i == self.timeout_at:
            raise socket.timeout()
        if not self.chunks:
            return b''
        c = self.chunks[0]
        if len(c) > n:
            self.chunks[0] = c[n:]
            c = c[:n]
        else:
            self.chunks.pop(0)
        self.delivered += c
        return c

    def send(self, data):
        if not data:
            return 0
        k = self.send_pattern.pop(0) if self.send_pattern else len(data)
        if k < 0:
            raise socket.timeout()
        k = max(1, min(k, len(data)))
        self.sent += data[:k]
        return k

    def close(self):
        pass


def compositions(data):
    n = len(data)
    if n == 0:
        yield []
        return
    for mask in range(2 ** (n - 1)):
        out, cur = [], data[:1]
        for i in range(1, n):
            if mask & (1 << (i - 1)):
                out.append(cur)
                cur = b''
            cur += data[i:i + 1]
        out.append(cur)
        yield out


RECV_OPS = ['until', 'until_with', 'until_max', 'size', 'peek', 'recv', 'close']


def run_script(bs, script, delim, max_retries=6):
    """runs the calls (retrying after Timeout); returns list of outcomes and the concatenation of consumed bytes"""
    outcomes = []
    consumed = b''
    for op, a in script:
        tries = 0
        while True:
            try:
                if op == 'until':
                    r = bs.recv_until(delim)
                    consumed += r + delim
                elif op == 'until_with':
                    r = bs.recv_until(delim, with_delimiter=True)
                    consumed += r
                elif op == 'until_max':
                    r = bs.recv_until(delim, maxsize=a)
                    consumed += r + delim
                elif op == 'size':
                    r = bs.recv_size(a)
                    consumed += r
                elif op == 'peek':
                    r = bs.peek(a)
                elif op == 'recv':
                    # recv may return any non-empty prefix: keep calling until `a` bytes or end of stream so that
                    # the following calls start at the same stream position as in the one-chunk run
                    r = b''
                    rtries = 0
                    while len(r) < a:
                        try:
                            part = bs.recv(a - len(r))
                        except Timeout:
                            rtries += 1
                            if rtries > max_retries:
                                break
                            continue
                        if len(part) > a - len(r):
                            return [('recv', 'overlong', part)], consumed
                        if not part:
                            break
                        r += part
                        consumed += part
                else:
                    r = bs.recv_close(maxsize=a)
                    consumed += r
                outcomes.append((op, 'ok', r))
                break
            except Timeout:
                tries += 1
                if tries > max_retries:
                    outcomes.append((op, 'stuck', None))
                    break
            except ConnectionClosed:
                outcomes.append((op, 'closed', None))
                break
            except MessageTooLong:
                outcomes.append((op, 'toolong', None))
                break
    return outcomes, consumed


def _recv_body(classes, dsel, script):
    delim = [b':', b'\r\n', b'aa'][dsel]
    alphabet = [[b'x', b':', b'y'], [b'x', b'\r', b'\n'], [b'x', b'a', b'b']][dsel]
    stream = b''.join(alphabet[c] for c in classes)
    # reference: the whole stream arrives at once, no timeouts
    saved = su.time
    try:
        su.time = FakeTime(-1)
        ref_sock = FakeSock([stream] if stream else [])
        ref = BufferedSocket(ref_sock, timeout=5.0, maxsize=64, recvsize=64)
        ref_out, ref_consumed = run_script(ref, script, delim)
        straddle = False
        for chunks in compositions(stream):
            if len(delim) > 1 and any(delim not in c for c in chunks) and delim in stream:
                straddle = True
            for recvsize in (1, 2):
                for timeout_at in range(-1, len(stream) + 3):
                    for jump_at in (-1, 0, 1, 2, 3, 5):
                        if timeout_at >= 0 and jump_at >= 0:
                            continue
                        su.time = FakeTime(jump_at)
                        sock = FakeSock(chunks, timeout_at=timeout_at)
                        bs = BufferedSocket(sock, timeout=5.0, maxsize=64, recvsize=recvsize)
                        where = 'stream=%r chunks=%r recvsize=%d timeout_at=%d jump_at=%d script=%r' % (stream, chunks, recvsize, timeout_at, jump_at, script)
                        # conservation is checked after every call, including failed ones
                        outcomes = []
                        consumed = b''
                        for step in script:
                            o, c = run_script(bs, [step], delim)
                            outcomes += o
                            consumed += c
                            undelivered = b''.join(sock.chunks)
                            if consumed + bs.getrecvbuffer() + undelivered != stream:
                                return fail('bytes_lost_or_duplicated', '%s: consumed %r + buffered %r + undelivered %r' % (where, consumed, bs.getrecvbuffer(), undelivered))
                        if [o[:2] for o in outcomes] != [o[:2] for o in ref_out] or [o[2] for o in outcomes] != [o[2] for o in ref_out]:
                            return fail('result_depends_on_chunking', '%s: got %r, in one chunk %r' % (where, outcomes, ref_out))
                        for (op, a), (_, st, r) in zip(script, outcomes):
                            if op == 'recv' and st == 'ok':
                                if len(r) > a:
                                    return fail('recv_returned_more_than_requested', where)
    finally:
        su.time = saved
    return ('ok', straddle)


def recv_law(n: int, k0: int, k1: int, k2: int, k3: int, k4: int, k5: int, o1: int, a1: int, o2: int, a2: int, o3: int, a3: int) -> bool:
    """
    pre: 0 <= n <= 6
    post: _
    """
    dsel = pinval('delim', 0)
    n = cz(n, 0, pinval('nmax', 4))
    classes = [cz(k, 0, 2) for k in [k0, k1, k2, k3, k4, k5][:n]]
    ops = []
    for idx, o in enumerate([o1, o2, o3][:pinval('nops', 2)]):
        o = pinval('op1') if (idx == 0 and pinval('op1') is not None) else cz(o, 0, len(RECV_OPS) - 1)
        ops.append(RECV_OPS[o])
    with notrace():
        # size / maxsize arguments: every combination is run (concrete loop, no forking needed)
        import itertools
        ranges = []
        for op in ops:
            if op in ('until', 'until_with'):
                ranges.append([0])
            elif op in ('until_max', 'close'):
                ranges.append([1, 2, 3, 4])
            else:
                ranges.append([0, 1, 2, 3, 4])
        straddle = False
        for args in itertools.product(*ranges):
            r = _recv_body(classes, dsel, list(zip(ops, args)))
            if not isinstance(r, tuple):
                return r
            straddle = straddle or r[1]
        return done(True, kind='straddle' if straddle else 'plain', classes=classes, ops=ops)


# ------------------------------------------------------------------ send side
SEND_OPS = ['send', 'sendall', 'buffer', 'flush']


def _send_body(script):
    datas = [b'ab', b'c', b'def']
    total_accept = sum(len(datas[i]) for i, (op, i_) in enumerate(script) if op != 'flush')
    import itertools
    saved = su.time
    try:
        for pattern in itertools.product((1, 2, 9, -1), repeat=4):
            if pattern.count(-1) > 1:
                continue
            for jump_at in (-1, 1, 3):
                su.time = FakeTime(jump_at)
                sock = FakeSock([], send_pattern=pattern)
                bs = BufferedSocket(sock, timeout=5.0)
                accepted = b''
                where = 'script=%r pattern=%r jump_at=%d' % (script, pattern, jump_at)
                for idx, (op, _) in enumerate(script):
                    d = datas[idx]
                    tries = 0
                    first = True
                    while True:
                        try:
                            if op == 'send':
                                if first:
                                    accepted += d
                                bs.send(d if first else b'')
                            elif op == 'sendall':
                                if first:
                                    accepted += d
                                bs.sendall(d if first else b'')
                            elif op == 'buffer':
                                accepted += d
                                bs.buffer(d)
                            else:
                                bs.flush()
                            break
                        except Timeout:
                            first = False
                            tries += 1
                            if tries > 8:
                                break
                        finally:
                            if sock.sent + bs.getsendbuffer() != accepted:
                                return fail('send_bytes_lost_or_duplicated', '%s step %d: sent %r + buffered %r != accepted %r' % (where, idx, sock.sent, bs.getsendbuffer(), accepted))
                for _ in range(6):
                    try:
                        bs.flush()
                        break
                    except Timeout:
                        if sock.sent + bs.getsendbuffer() != accepted:
                            return fail('send_bytes_lost_or_duplicated', '%s final flush' % where)
                if sock.sent != accepted or bs.getsendbuffer() != b'':
                    return fail('send_not_delivered_after_flush', '%s: sent %r accepted %r' % (where, sock.sent, accepted))
    finally:
        su.time = saved
    return done(True, script=script)


def send_law(o1: int, o2: int, o3: int) -> bool:
    """
    pre: True
    post: _
    """
    script = [(SEND_OPS[cz(o, 0, 3)], 0) for o in [o1, o2, o3][:pinval('nops', 3)]]
    with notrace():
        return _send_body(script)


# ------------------------------------------------------------------ netstrings
NBYTES = [b':', b',', b'5', b'x']


def _ns_body(payloads, maxsize):
    class Loop(FakeSock):
        pass
    w = FakeSock([])
    ws = NetstringSocket(w, maxsize=maxsize)
    written = []
    for p in payloads:
        try:
            ws.write_ns(p)
            written.append(p)
        except su.NetstringMessageTooLong:
            if len(p) <= maxsize:
                return fail('write_ns_spurious_too_long')
    wire = w.sent
    saved = su.time
    try:
        for chunks in compositions(wire):
            if len(wire) > 9 and len(chunks) not in (1, 2, len(wire)):
                continue
            for timeout_at in (-1,):          # read_ns is not claimed to be retry-safe after a mid-message Timeout
                su.time = FakeTime(-1)
                sock = FakeSock(chunks, timeout_at=timeout_at)
                rs = NetstringSocket(sock, maxsize=maxsize)
                got = []
                for _ in written:
                    for attempt in range(3):
                        try:
                            got.append(rs.read_ns())
                            break
                        except Timeout:
                            continue
                if got != written:
                    return fail('netstring_roundtrip', 'payloads=%r wire=%r chunks=%r timeout_at=%d: got %r' % (written, wire, chunks, timeout_at, got))
        # the size limit can be given per call: a reader built with a small limit reads a longer payload with read_ns(maxsize=...)
        w2 = FakeSock([])
        NetstringSocket(w2, maxsize=64).write_ns(b'0123456789')
        for p in written[:1]:
            NetstringSocket(w2, maxsize=64).write_ns(p)
        for chunks in ([w2.sent], [w2.sent[:3], w2.sent[3:]], [w2.sent[i:i + 1] for i in range(len(w2.sent))]):
            su.time = FakeTime(-1)
            rs = NetstringSocket(FakeSock(chunks, timeout_at=-1), maxsize=5)
            got = [rs.read_ns(maxsize=64)] + [rs.read_ns(maxsize=64) for p in written[:1]]
            if got != [b'0123456789'] + written[:1]:
                return fail('netstring_per_call_maxsize', 'wire=%r chunks=%r: got %r' % (w2.sent, chunks, got))
    finally:
        su.time = saved
    return done(True, kind='written', payloads=payloads)


def ns_law(n1: int, n2: int, b0: int, b1: int, b2: int, b3: int, maxsize: int) -> bool:
    """
    pre: 0 <= n1 <= 2 and 0 <= n2 <= 2
    post: _
    """
    n1 = cz(n1, 0, 2)
    n2 = cz(n2, 0, 2)
    bs = [NBYTES[cz(b, 0, 3)] for b in [b0, b1, b2, b3][:n1 + n2]]
    maxsize = cz(maxsize, 1, 3)
    p1 = b''.join(bs[:n1])
    p2 = b''.join(bs[n1:])
    with notrace():
        return _ns_body([p1, p2], maxsize)


def obligations(tier):
    obs = []
    q = tier == 'quick'
    T = 170 if q else 1500
    for dsel in range(3):
        for op1 in range(len(RECV_OPS)):
            obs.append(Ob('recv_law', timeout=T, pins={'delim': dsel, 'op1': op1, 'nmax': 3 if q else 4, 'nops': 2},
                          need_kinds=('straddle',) if dsel else ()))
    if not q:
        # three calls on shorter streams
        for dsel in range(3):
            for op1 in range(len(RECV_OPS)):
                obs.append(Ob('recv_law', timeout=T, pins={'delim': dsel, 'op1': op1, 'nmax': 2, 'nops': 3}))
    obs.append(Ob('send_law', timeout=T, pins={'nops': 3}))
    obs.append(Ob('ns_law', timeout=T, need_kinds=('written',)))
    return obs

"""C18 spooled files act the same in memory and on disk; MultiFileReader concatenates.

Engine E1.  A solver-chosen script of file operations (operation codes, sizes, positions,
chunk contents by character class) runs on a SpooledBytesIO / SpooledStringIO for EVERY
max_size from 1 to beyond the data (so it rolls over at every possible moment or never) and
on io.BytesIO / io.StringIO; all return values, tell() and getvalue() after each step must
agree.  MultiFileReader: solver-chosen partition of a content into member files and a script
of sized / unsized reads and seek(0).
"""
import io
import os
from boltons import ioutils
from vf import rt
from vf.rt import internal, cz, pin, pinval, assume, fail, done, notrace
from vf.check import Ob

PROPERTY = 'C18'
TARGETS = ['boltons.ioutils.SpooledBytesIO.write', 'boltons.ioutils.SpooledBytesIO.read', 'boltons.ioutils.SpooledBytesIO.rollover',
           'boltons.ioutils.SpooledBytesIO.readline', 'boltons.ioutils.SpooledBytesIO.seek', 'boltons.ioutils.SpooledBytesIO.tell',
           'boltons.ioutils.SpooledBytesIO.len', 'boltons.ioutils.SpooledStringIO.write', 'boltons.ioutils.SpooledStringIO.read',
           'boltons.ioutils.SpooledStringIO.seek', 'boltons.ioutils.SpooledStringIO._traverse_codepoints',
           'boltons.ioutils.SpooledStringIO.readline', 'boltons.ioutils.SpooledStringIO.readlines', 'boltons.ioutils.SpooledStringIO.rollover',
           'boltons.ioutils.SpooledStringIO.tell', 'boltons.ioutils.SpooledStringIO.len', 'boltons.ioutils.SpooledIOBase.getvalue',
           'boltons.ioutils.SpooledIOBase.__next__', 'boltons.ioutils.SpooledIOBase.__len__', 'boltons.ioutils.MultiFileReader.read',
           'boltons.ioutils.MultiFileReader.seek', 'boltons.ioutils.MultiFileReader.__init__']
BOUNDS = {
    'quick': {'multi_long': 'three fixed members, every script of 4 calls', 'spool_long': 'every script of 4 calls (3 in bytes mode) from 8 read/seek calls with no tell()/getvalue() in between, then the rest is read', 'script': 'preset content + 2 solver-chosen operations from write/read(n)/read()/readline/readline(n)/readlines/iterate/seek(p)/seek-to-end/tell/getvalue/len',
              'max_size': 'every value 1..len(data)+3 and never-rolling', 'chunks': 'classes ASCII, 2-, 3-, 4-byte, LF, CR, CRLF',
              'multifile': 'content <= 5 items, <= 3 member files (empty members allowed), 3 operations'},
    'thorough': {'script': '3 operations'},
}
ASSUMPTIONS = ['writes append (the position is moved to the end first, as the statement says "appending writes")', 'UTF-8',
               'io.BytesIO / io.StringIO(newline="\\n" semantics) are the reference']
OUT_OF_CLAIM = ['readlines(sizehint): the hint is advisory, and CPython\'s own BytesIO / file objects / StringIO stop at different totals', 'truncate, fileno users, universal-newline translation', 'seek beyond the data', 'other encodings', 'longer scripts']
STUBS = ['none: real TemporaryFile objects are used for the rolled-over state (all arguments are concrete when the file code runs)']

CHUNKS = ['a', '\xe9', '€', '\U0001f600', '\n', '\r', '\r\n', 'bc\n', '\x85', '\u2028x']
PRESETS = ['', 'a\n\xe9€\r\nb\U0001f600', 'x\r\n\n\ryz', 'p\x0bq\x85r\u2028s\n\x1ct']
OPS = ['write', 'read_n', 'read_all', 'readline', 'readlines', 'iterate', 'seek', 'seek_end', 'tell', 'getvalue', 'len', 'bool_len', 'readline_n']


def apply(f, op, arg, text, is_ref, chunk):
    """returns the observable result of one operation"""
    if op == 'write':
        f.seek(0, os.SEEK_END)
        data = chunk if text else chunk.encode('utf-8')
        f.write(data)
        return None
    if op == 'read_n':
        return f.read(arg)
    if op == 'read_all':
        return f.read()
    if op == 'readline':
        return f.readline()
    if op == 'readline_n':
        return f.readline(arg)
    if op == 'seek_bad':
        if not text:
            return None                  # bytes mode delegates to BytesIO / the real file, whose accepted whence values differ
        try:
            f.seek(0, 3)                 # not a valid whence: refused, and the stream stays where it was
            return 'accepted'
        except ValueError:
            return 'ValueError'
    if op == 'readlines':
        return f.readlines()
    if op == 'iterate':
        return list(f)
    if op == 'seek':
        f.seek(arg)
        return None
    if op == 'seek_end':
        f.seek(0, os.SEEK_END)
        return None
    if op == 'tell':
        return f.tell()
    if op == 'getvalue':
        return f.getvalue()
    if op == 'len':
        if is_ref:
            pos = f.tell()
            n = len(f.getvalue())
            f.seek(pos)
            return n
        return len(f)
    if op == 'bool_len':
        if is_ref:
            return len(f.getvalue())
        return f.len
    raise AssertionError(op)


def _spool_body(text, preset, script, light=False):
    content = PRESETS[preset]
    mk_ref = (lambda: io.StringIO(newline='\n')) if text else io.BytesIO
    cls = ioutils.SpooledStringIO if text else ioutils.SpooledBytesIO
    nbytes = len(content.encode('utf-8')) + sum(len(CHUNKS[c].encode('utf-8')) for op, a, c in script if op == 'write')
    rolled_seen = False
    for max_size in list(range(1, nbytes + 4)) + [10 ** 6]:
        ref = mk_ref()
        sp = cls(max_size=max_size)
        try:
            if content:
                ref.write(content if text else content.encode('utf-8'))
                sp.write(content if text else content.encode('utf-8'))
            for idx, (op, arg, c) in enumerate(script):
                ndata = len(ref.getvalue())
                a = min(arg, ndata) if op == 'seek' else arg
                exp = apply(ref, op, a, text, True, CHUNKS[c])
                got = apply(sp, op, a, text, False, CHUNKS[c])
                where = 'text=%r preset=%r max_size=%d script=%r step %d' % (text, content, max_size, script, idx)
                if got != exp:
                    return fail('spooled_%s_result' % op, '%s: got %r expected %r' % (where, got, exp))
                if light:
                    continue             # no tell()/getvalue() between the calls: they re-position the stream and hide stale reader state
                if sp.tell() != ref.tell():
                    return fail('spooled_tell_after_%s' % op, '%s: tell %r expected %r' % (where, sp.tell(), ref.tell()))
                if sp.getvalue() != ref.getvalue():
                    return fail('spooled_content_after_%s' % op, where)
                if sp.tell() != ref.tell():
                    return fail('spooled_tell_after_getvalue', where)
            if light:
                rest_e, rest_g = ref.read(), sp.read()
                if rest_g != rest_e:
                    return fail('spooled_rest_after_script', 'text=%r preset=%r max_size=%d script=%r: got %r expected %r' % (text, content, max_size, script, rest_g, rest_e))
                if sp.tell() != ref.tell():
                    return fail('spooled_tell_after_script', 'text=%r preset=%r max_size=%d script=%r' % (text, content, max_size, script))
            rolled_seen = rolled_seen or internal(sp, '_rolled')
        finally:
            sp.close()
    return done(True, kind='rolled' if rolled_seen else 'memory', text=text, script=script)


def spool_law(o1: int, a1: int, c1: int, o2: int, a2: int, c2: int, o3: int, a3: int, c3: int) -> bool:
    """
    pre: True
    post: _
    """
    text = pinval('text', 0)
    preset = pinval('preset', 1)
    nops = pinval('nops', 2)
    script = []
    for idx, (o, a, c) in enumerate([(o1, a1, c1), (o2, a2, c2), (o3, a3, c3)][:nops]):
        if idx == 0 and pinval('op1') is not None:
            o = pinval('op1')
        else:
            o = cz(o, 0, len(OPS) - 1)
        op = OPS[o]
        if op == 'write':
            c = cz(c, 0, len(CHUNKS) - 1)
            a = 0
        elif op in ('read_n', 'readline_n'):
            a = cz(a, 0, 3)
            c = 0
        elif op == 'seek':
            a = cz(a, 0, 9)
            c = 0
        else:
            a = c = 0
        script.append((op, a, c))
    with notrace():
        return _spool_body(bool(text), preset, script)


# ------------------------------------------------------------------ MultiFileReader
MITEMS = ['a', '\xe9', '€', '\n', 'bc']
MOPS = ['read1', 'read2', 'read3', 'read_all', 'seek0', 'read0']


def _multi_body(text, classes, c1, c2, script):
    content = [MITEMS[c] for c in classes]
    parts = [''.join(content[:c1]), ''.join(content[c1:c2]), ''.join(content[c2:])]
    whole = ''.join(content)
    if text:
        files = [io.StringIO(p) for p in parts]
        empty = ''
    else:
        files = [io.BytesIO(p.encode('utf-8')) for p in parts]
        whole = whole.encode('utf-8')
        empty = b''
    mfr = ioutils.MultiFileReader(*files)
    pos = 0
    for idx, op in enumerate(script):
        where = 'text=%r parts=%r script=%r step %d' % (text, parts, script, idx)
        if op == 'seek0':
            mfr.seek(0)
            pos = 0
            continue
        if op in ('read_all', 'read0'):
            got = mfr.read() if op == 'read_all' else mfr.read(0)
            exp = whole[pos:]
            pos = len(whole)
        else:
            n = int(op[-1])
            got = mfr.read(n)
            exp = whole[pos:pos + n]
            pos += len(exp)
        if got != exp:
            return fail('multifile_%s' % op, '%s: got %r expected %r' % (where, got, exp))
    rest = mfr.read(len(whole) + 2)          # a sized read goes through the member index
    if rest != whole[pos:]:
        return fail('multifile_final_read', 'text=%r parts=%r script=%r: got %r expected %r' % (text, parts, script, rest, whole[pos:]))
    return done(True, kind='empty_member' if any(not p for p in parts) else 'full', parts=parts, script=script)


def multi_law(n: int, k0: int, k1: int, k2: int, k3: int, k4: int, c1: int, c2: int, o1: int, o2: int, o3: int) -> bool:
    """
    pre: 0 <= n <= 5
    post: _
    """
    text = pinval('text', 0)
    n = cz(n, 0, pinval('nmax', 4))
    classes = [cz(k, 0, 1 if i else 4) for i, k in enumerate([k0, k1, k2, k3, k4][:n])]
    c1 = cz(c1, 0, n)
    c2 = cz(c2, c1, n)
    script = []
    for idx, o in enumerate([o1, o2, o3][:pinval('nops', 2)]):
        script.append(MOPS[pinval('op1') if (idx == 0 and pinval('op1') is not None) else cz(o, 0, len(MOPS) - 1)])
    with notrace():
        return _multi_body(bool(text), classes, c1, c2, script)


LONG_OPS = [('seek', 0), ('seek', 2), ('seek_bad', 0), ('readline', 0), ('readline_n', 1), ('readline_n', 2), ('read_n', 2), ('read_all', 0)]


def spool_long_law(o1: int, o2: int, o3: int, o4: int) -> bool:
    """
    pre: True
    post: _
    """
    # four calls in a row WITHOUT tell()/getvalue() in between (those re-position the stream), then the rest is read:
    # state left behind by one call (reader read-ahead, a refused seek) shows in the next
    text = pinval('text', 1)
    preset = pinval('preset', 1)
    script = []
    for idx, o in enumerate([o1, o2, o3, o4][:pinval('nops', 4)]):
        oi = pinval('o1') if (idx == 0 and pinval('o1') is not None) else cz(o, 0, len(LONG_OPS) - 1)
        op, arg = LONG_OPS[oi]
        script.append((op, arg, 0))
    with notrace():
        return _spool_body(bool(text), preset, script, light=True)


def multi_long_law(o1: int, o2: int, o3: int, o4: int, o5: int) -> bool:
    """
    pre: True
    post: _
    """
    # longer scripts over three fixed member files (two layouts, a multi-byte item in text mode):
    # sequences like read(2), read(3), read(), seek(0), read() need four or five calls
    text = pinval('text', 0)
    script = [MOPS[cz(o, 0, len(MOPS) - 1)] for o in [o1, o2, o3, o4, o5][:pinval('nops', 4)]]
    with notrace():
        # two layouts: members of 1, 2 and 1 characters (short reads cross member boundaries quickly) and of 3, 3, 3
        snap = (rt.STATE['paths'], rt.STATE['witness'], dict(rt.STATE['witness_kinds']), list(rt.STATE['samples']))
        r = _multi_body(bool(text), [0, 4, 1 if text else 0], 1, 2, script)
        if r is not True:
            return r
        rt.STATE['paths'], rt.STATE['witness'], rt.STATE['witness_kinds'], rt.STATE['samples'] = snap     # one path, not two
        return _multi_body(bool(text), [0, 4, 1 if text else 0, 4, 0, 4], 2, 4, script)


def obligations(tier):
    obs = []
    q = tier == 'quick'
    T = 170 if q else 1500
    for text in (0, 1):
        for preset in (1, 2, 3):
            for op1 in range(len(OPS)):
                obs.append(Ob('spool_law', timeout=T, pins={'text': text, 'preset': preset, 'nops': 2 if q else 3, 'op1': op1},
                              need_kinds=('rolled',)))
        obs.append(Ob('spool_law', timeout=T, pins={'text': text, 'preset': 0, 'nops': 2 if q else 3}, need_kinds=('rolled',)))
        for preset in (1, 2):
            if text:
                for o1 in range(len(LONG_OPS)):
                    obs.append(Ob('spool_long_law', timeout=T, pins={'text': 1, 'preset': preset, 'nops': 4, 'o1': o1}, need_kinds=('rolled',)))
            else:
                obs.append(Ob('spool_long_law', timeout=T, pins={'text': 0, 'preset': preset, 'nops': 3}, need_kinds=('rolled',)))
        obs.append(Ob('multi_long_law', timeout=T, pins={'text': text, 'nops': 4 if q else 5}))
        for op1 in range(len(MOPS)):
            obs.append(Ob('multi_law', timeout=T if q else 2700, pins={'text': text, 'nmax': 3 if q else 4, 'nops': 2 if q else 3, 'op1': op1}, need_kinds=('empty_member', 'full')))
    return obs

"""C15 backoff sequences are monotone, capped at stop, of the right length; jitter bounded.

Engine E2 (vf/pysym.py): the AST of iterutils.backoff_iter, read from the repository on every
run, is interpreted symbolically; start/stop/factor/jitter are z3 Reals (exact-arithmetic
claims, bounded unrolling K with unwinding check) or IEEE-754 doubles (inductive step, decided
by cvc5 because z3 answers `unknown` on the FP product), count is a symbolic Int / None /
'repeat', random.random() a fresh variable in [0, 1), math.log an uninterpreted function
constrained by the exact-logarithm contract at integer powers of a concrete factor.
A satisfying assignment is replayed on the real generator with Python floats.
"""
import math
import fractions
import subprocess
import os
import time
from boltons import iterutils
from vf.rt import fail, done, pinval
from vf.check import Ob

PROPERTY = 'C15'
TARGETS = ['boltons.iterutils.backoff_iter', 'boltons.iterutils.backoff']
BOUNDS = {
    'quick': {'exact_sequence': 'count 0..5 (symbolic), all real start/stop/factor', 'repeat': '5 values', 'jitter': 'count 0..3, all real jitter in [-1,1], all draws',
              'default_count': 'factor in {2, 10, 3/2} with stop/start up to factor^5, and every real factor >= 3/2 with stop/start up to (3/2)^3', 'ieee_step': 'one loop iteration from an arbitrary valid state, all finite doubles (cvc5 QF_FP)'},
    'thorough': {'exact_sequence': 'count 0..12', 'repeat': '12 values', 'jitter': 'count 0..6 (z3 answers unknown on the nonlinear obligations at 7)', 'default_count': 'up to factor^10; symbolic factor up to (3/2)^6'},
}
ASSUMPTIONS = ['reals-based obligations: arithmetic is exact', 'IEEE obligation: inputs finite, round-to-nearest-even', 'math.log(x, b): any function with b^n <= x <=> log >= n and b^n < x <=> log > n for integer n in the bound (exact logarithm contract); math.ceil exact']
OUT_OF_CLAIM = ['NaN / infinite parameters', 'float rounding inside the jitter expression', 'accuracy of libm log beyond the stated contract', 'counts above the unrolling bound for the exact-sequence clause (the inductive IEEE step has no count bound)']
STUBS = ['IEEE obligations: cvc5 1.4 Python wheel through vf/cvc5_run.py (falls back to the 1.0 binary)', 'random.random -> fresh real in [0,1)', 'math.log / math.ceil -> uninterpreted + contract']


def _z3():
    import z3
    return z3


def _frac(v):
    """z3 numeral -> Fraction"""
    z3 = _z3()
    if z3.is_int_value(v):
        return fractions.Fraction(v.as_long())
    if z3.is_rational_value(v):
        return fractions.Fraction(v.numerator_as_long(), v.denominator_as_long())
    if z3.is_algebraic_value(v):
        return fractions.Fraction(v.approx(20).numerator_as_long(), v.approx(20).denominator_as_long())
    raise ValueError(v)


def _model_args(m, names):
    z3 = _z3()
    out = {}
    for n, var in names.items():
        val = m.eval(var, model_completion=True)
        out[n] = _frac(val)
    return out


def _mk_models(rnd_box):
    z3 = _z3()

    def rnd(interp, path):
        r = z3.Real('rnd%d' % path.nrandom)
        path.nrandom += 1
        path.cond += [r >= 0, r < 1]
        path.aux.setdefault('rnds', []).append(r)
        return r
    return {'random.random': rnd}


def validate_translator():
    """push concrete inputs (the repository's own test cases and doc examples) through E2 and the real generator"""
    z3 = _z3()
    from vf import pysym
    cases = [(1, 10, None, 2.0), (1, 10, 8, 2.0), (0.25, 100.0, None, 10), (0, 10, 5, 2.0), (0, 0.75, 3, 2.0), (3, 8, 0, 2.0),
             (2, 2, 3, 4), (0, 16, 6, 4), (1, 1000, 4, 10), (5, 5, 1, 1)]
    for start, stop, count, factor in cases:
        real_count = count
        if count is None:
            real_count = len(iterutils.backoff(start, stop, factor=factor))
        exp = list(iterutils.backoff(start, stop, count=real_count, factor=factor))

        def make_env():
            return ({'start': z3.RealVal(repr(start)), 'stop': z3.RealVal(repr(stop)), 'factor': z3.RealVal(repr(factor)),
                     'count': real_count, 'jitter': False}, [])
        paths, _ = pysym.explore(iterutils.backoff_iter, 12, make_env, models=_mk_models(None))
        if len(paths) != 1 or paths[0].exc or paths[0].cut:
            return 'translator validation: %r gives %d paths' % ((start, stop, count, factor), len(paths))
        got = [float(_frac(z3.simplify(o))) for o in paths[0].out]
        if got != [float(x) for x in exp]:
            return 'translator validation: %r: interpreter %r, real generator %r' % ((start, stop, count, factor), got, exp)
    # invalid parameters must raise in both
    for bad in [(-1, 5), (3, 2), (0, 0)]:
        try:
            list(iterutils.backoff_iter(*bad))
            real = None
        except ValueError:
            real = 'ValueError'

        def make_env(bad=bad):
            return ({'start': z3.RealVal(bad[0]), 'stop': z3.RealVal(bad[1]), 'factor': z3.RealVal(2), 'count': 2, 'jitter': False}, [])
        paths, _ = pysym.explore(iterutils.backoff_iter, 4, make_env, models=_mk_models(None))
        if len(paths) != 1 or paths[0].exc != real:
            return 'translator validation (invalid parameters %r): interpreter %r, real %r' % (bad, paths[0].exc if paths else None, real)
    return None


def _expected_next(z3, a, stop, factor):
    """the statement's sequence law over reals: 0 -> min(1, stop); else grow by factor until it would pass stop"""
    return z3.If(a == 0, z3.If(stop >= 1, z3.RealVal(1), stop), z3.If(a * factor <= stop, a * factor, stop))


def sequence_reals(pins, timeout):
    z3 = _z3()
    from vf import pysym
    err = validate_translator()
    if err:
        return {'verdict': 'error', 'message': err}
    K = pins.get('K', 4)
    mode = pins.get('mode', 'count')            # 'count' | 'repeat' | 'jitter'
    start, stop, factor, jit = z3.Reals('start stop factor jitter')
    count = z3.Int('count')
    names = {'start': start, 'stop': stop, 'factor': factor}
    stats = {}

    def make_env():
        env = {'start': start, 'stop': stop, 'factor': factor, 'count': count, 'jitter': False}
        assumptions = [count >= 0, count <= K]
        if mode == 'repeat':
            env['count'] = 'repeat'
            assumptions = []
        if mode == 'jitter':
            env['jitter'] = jit
        return env, assumptions
    t0 = time.time()
    paths, infeasible = pysym.explore(iterutils.backoff_iter, K + 1 if mode != 'repeat' else K, make_env, models=_mk_models(None), stats=stats)
    valid = z3.And(start >= 0, stop > 0, start <= stop, factor >= 1)
    queries = 0
    nontrivial = 0
    for p in paths:
        s = z3.Solver()
        s.set('timeout', int(timeout * 1000 / max(len(paths), 1)) + 5000)
        s.add(*p.cond)
        goals = []
        clause = []
        if p.exc:
            if p.exc != 'ValueError':
                goals.append(z3.BoolVal(True))
                clause.append('unexpected exception %s' % p.exc)
            elif p.out:
                goals.append(z3.BoolVal(True))
                clause.append('ValueError after values were yielded')
            else:
                jv = z3.And(jit >= -1, jit <= 1) if mode == 'jitter' else z3.BoolVal(True)
                goals.append(z3.And(valid, jv))                   # ValueError although every parameter is in range
                clause.append('ValueError inside the valid region')
        else:
            if mode == 'repeat':
                if not p.cut:
                    goals.append(z3.BoolVal(True))
                    clause.append("count='repeat' terminated")
            elif p.cut:
                goals.append(z3.BoolVal(True))
                clause.append('more values than count (unwinding bound exceeded)')
            jv = z3.Or(jit < -1, jit > 1) if mode == 'jitter' else z3.BoolVal(False)
            goals.append(z3.Or(z3.Not(valid), jv))                # values produced outside the valid region
            clause.append('no ValueError outside the valid region')
            outs = p.out
            if mode != 'repeat' and not p.cut:
                goals.append(z3.IntVal(len(outs)) != count)
                clause.append('number of values != count')
            if mode == 'jitter':
                # un-jittered sequence b_i by the law; every value between b and b*(1-j)
                b = start
                for i, o in enumerate(outs):
                    lo = z3.If(b <= b * (1 - jit), b, b * (1 - jit))
                    hi = z3.If(b <= b * (1 - jit), b * (1 - jit), b)
                    goals.append(z3.Or(o < lo, o > hi))
                    clause.append('jittered value %d outside [b, b(1-j)]' % i)
                    b = _expected_next(z3, b, stop, factor)
            else:
                if outs:
                    goals.append(outs[0] != start)
                    clause.append('first value != start')
                for i, (a, nb) in enumerate(zip(outs, outs[1:])):
                    goals += [nb < a, nb > stop, nb != _expected_next(z3, a, stop, factor)]
                    clause += ['value %d decreases' % (i + 1), 'value %d exceeds stop' % (i + 1), 'value %d breaks the growth law' % (i + 1)]
        if len(p.out) >= 2:
            nontrivial += 1
        s.add(z3.Or(*goals))
        r = s.check()
        queries += 1
        if str(r) == 'sat':
            m = s.model()
            vals = _model_args(m, names)
            cnt = m.eval(count, model_completion=True).as_long() if mode == 'count' else ('repeat' if mode == 'repeat' else m.eval(count, model_completion=True).as_long())
            jv = _frac(m.eval(jit, model_completion=True)) if mode == 'jitter' else 0
            rnds = [_frac(m.eval(x, model_completion=True)) for x in p.aux.get('rnds', [])]
            which = [c for g, c in zip(goals, clause) if z3.is_true(m.eval(g, model_completion=True))]
            return {'verdict': 'counterexample', 'message': 'backoff_iter: %s for %r count=%r jitter=%r' % (which[:2], {k: str(v) for k, v in vals.items()}, cnt, str(jv)),
                    'call_args': '%r, %r, %r, %r, %r, %r' % (str(vals['start']), str(vals['stop']), str(vals['factor']), cnt, str(jv), [str(x) for x in rnds]),
                    'replay_function': 'replay_backoff', 'paths': len(paths), 'solver_queries': queries + stats.get('queries', 0)}
        if str(r) != 'unsat':
            return {'verdict': 'inconclusive', 'message': 'z3 answered %s on a path obligation (mode %s)' % (r, mode), 'paths': len(paths)}
    return {'verdict': 'confirmed', 'paths': len(paths), 'completed': len(paths), 'witness': nontrivial,
            'samples': [{'mode': mode, 'K': K, 'paths': len(paths), 'infeasible_prefixes': infeasible, 'yields_on_longest_path': max([len(p.out) for p in paths] or [0])}],
            'solver_queries': queries + stats.get('queries', 0), 'solver_s': round(time.time() - t0, 2)}


def replay_backoff(start, stop, factor, count, jitter='0', rnds=()):
    """concrete replay on the real generator with floats"""
    F = fractions.Fraction
    start, stop, factor, jitter = float(F(start)), float(F(stop)), float(F(factor)), float(F(jitter))
    rnds = [float(F(x)) for x in rnds]
    valid = (0 <= start <= stop) and stop > 0 and factor >= 1 and -1 <= jitter <= 1
    import random
    saved = random.random
    draws = list(rnds)
    random.random = lambda: (draws.pop(0) if draws else 0.5)
    try:
        try:
            gen = iterutils.backoff_iter(start, stop, count=count, factor=factor, jitter=jitter if jitter else False)
            out = []
            for v in gen:
                out.append(v)
                if len(out) >= (count if isinstance(count, int) else 6) + 2:
                    break
        except ValueError:
            return fail('valueerror_in_valid_region') if valid else True
    finally:
        random.random = saved
    if not valid:
        return fail('no_valueerror_outside_valid_region', '%r' % ((start, stop, factor, count, jitter),))
    if isinstance(count, int) and len(out) != count:
        return fail('wrong_number_of_values', '%r -> %r' % ((start, stop, factor, count), out))
    if jitter:
        b = start
        for i, o in enumerate(out):
            lo, hi = sorted((b, b * (1 - jitter)))
            if not (lo <= o <= hi):
                return fail('jitter_out_of_bounds', '%r -> %r' % ((start, stop, factor, count, jitter), out))
            b = (min(1.0, stop) if b == 0 else (b * factor if b * factor <= stop else stop))
        return True
    if out and out[0] != start:
        return fail('first_value')
    for a, nb in zip(out, out[1:]):
        exp = min(1.0, stop) if a == 0 else (a * factor if a * factor <= stop else stop)
        if nb != exp or nb < a or nb > stop:
            return fail('growth_law', '%r -> %r' % ((start, stop, factor, count), out))
    return True


# ------------------------------------------------------------------ default count (count=None)
def default_count(pins, timeout):
    z3 = _z3()
    from vf import pysym
    err = validate_translator()
    if err:
        return {'verdict': 'error', 'message': err}
    num, den = pins.get('factor', [2, 1])
    f = fractions.Fraction(num, den)
    K = pins.get('K', 4)
    start, stop = z3.Reals('start stop')
    symbolic_factor = bool(pins.get('symbolic_factor'))
    fz = z3.Real('factor') if symbolic_factor else z3.RealVal('%d/%d' % (num, den))
    stats = {}

    def model_log(interp, path, x, base):
        # uninterpreted value constrained by the exact-logarithm contract at integer powers of the (concrete) factor
        L = z3.Real('log%d' % len(path.aux.setdefault('logs', [])))
        path.aux['logs'].append(L)
        for n in range(-K - 1, K + 2):
            pw = z3.RealVal(str(f ** n))
            path.cond += [(pw <= x) == (L >= n), (pw < x) == (L > n)]
        return L

    def model_ceil(interp, path, x):
        c = z3.Int('ceil%d' % len(path.aux.setdefault('ceils', [])))
        path.aux['ceils'].append(c)
        path.cond += [z3.ToReal(c) >= x, z3.ToReal(c) - 1 < x]
        return c
    models = _mk_models(None)
    models['math.log'] = model_log
    models['math.ceil'] = model_ceil

    def make_env():
        # stop/denom within factor^-K .. factor^K so that the default count stays below the unrolling bound
        lo, hi = z3.RealVal(str(f ** (-K))), z3.RealVal(str(f ** K))
        den_ = z3.If(start == 0, z3.RealVal(1), start)
        extra = [fz >= z3.RealVal(str(f))] if symbolic_factor else []     # every factor >= the pinned one: growth at least as fast
        return ({'start': start, 'stop': stop, 'factor': fz, 'count': None, 'jitter': False},
                [start >= 0, stop > 0, start <= stop, stop / den_ >= lo, stop / den_ <= hi] + extra)
    t0 = time.time()
    paths, infeasible = pysym.explore(iterutils.backoff_iter, K + 4, make_env, models=models, stats=stats)
    queries = 0
    for p in paths:
        s = z3.Solver()
        s.set('timeout', 60000)
        s.add(*p.cond)
        goals = []
        if p.exc or p.cut:
            goals.append(z3.BoolVal(True))
        elif not p.out:
            goals.append(z3.BoolVal(True))
        else:
            goals.append(p.out[-1] != stop)
            for a, nb in zip(p.out, p.out[1:]):
                goals.append(nb != _expected_next(z3, a, stop, fz))
        s.add(z3.Or(*goals))
        r = s.check()
        queries += 1
        if str(r) == 'sat':
            m = s.model()
            sv, tv = _frac(m.eval(start, model_completion=True)), _frac(m.eval(stop, model_completion=True))
            fv = _frac(m.eval(fz, model_completion=True)) if symbolic_factor else f
            return {'verdict': 'counterexample', 'message': 'default count: last value != stop (or exception) for start=%s stop=%s factor=%s (path exc=%r cut=%r, %d values)' % (sv, tv, fv, p.exc, p.cut, len(p.out)),
                    'call_args': '%r, %r, %r' % (str(sv), str(tv), str(fv)), 'replay_function': 'replay_default_count', 'paths': len(paths),
                    'solver_queries': queries + stats.get('queries', 0)}
        if str(r) != 'unsat':
            return {'verdict': 'inconclusive', 'message': 'z3 answered %s' % r, 'paths': len(paths)}
    return {'verdict': 'confirmed', 'paths': len(paths), 'completed': len(paths), 'witness': sum(1 for p in paths if len(p.out) >= 2),
            'samples': [{'factor': str(f), 'K': K, 'paths': len(paths), 'infeasible_prefixes': infeasible}],
            'solver_queries': queries + stats.get('queries', 0), 'solver_s': round(time.time() - t0, 2)}


def replay_default_count(start, stop, factor):
    F = fractions.Fraction
    start, stop, factor = float(F(start)), float(F(stop)), float(F(factor))
    out = iterutils.backoff(start, stop, factor=factor)
    if not out or out[-1] != stop:
        return fail('default_count_last_value_not_stop', 'backoff(%r, %r, factor=%r) -> %r' % (start, stop, factor, out))
    if out[0] != start:
        return fail('first_value')
    return True


# ------------------------------------------------------------------ IEEE-754 inductive step (cvc5)
def _fp_model(text):
    """read (get-value ...) output of cvc5 for Float64 variables into Python floats"""
    import re
    import struct
    out = {}
    for name, sign, ex, man in re.findall(r'\((\w+) \(fp #b([01]) #b([01]{11}) #b([01]{52})\)\)', text):
        out[name] = struct.unpack('>d', int(sign + ex + man, 2).to_bytes(8, 'big'))[0]
    for name, sg, kind in re.findall(r'\((\w+) \(_ ([+-])(zero|oo) 11 53\)\)', text):
        if kind == 'zero':
            out[name] = -0.0 if sg == '-' else 0.0
    return out or None


def ieee_step(pins, timeout):
    z3 = _z3()
    from vf import pysym
    F64 = z3.Float64()
    start, stop, factor = z3.FP('start', F64), z3.FP('stop', F64), z3.FP('factor', F64)
    stats = {}

    def make_env():
        fin = [z3.Not(z3.fpIsNaN(v)) for v in (start, stop, factor)] + [z3.Not(z3.fpIsInf(v)) for v in (start, stop, factor)]
        return ({'start': start, 'stop': stop, 'factor': factor, 'count': 'repeat', 'jitter': False}, fin)
    paths, _ = pysym.explore(iterutils.backoff_iter, 2, make_env, models={}, stats=stats, fp=True)
    zero, one = z3.FPVal(0.0, F64), z3.FPVal(1.0, F64)
    valid = z3.And(z3.fpGEQ(start, zero), z3.fpGT(stop, zero), z3.fpLEQ(start, stop), z3.fpGEQ(factor, one))
    work = os.path.join(os.path.dirname(os.path.dirname(os.path.abspath(__file__))), '.work')
    os.makedirs(work, exist_ok=True)
    queries = 0
    t0 = time.time()
    checked = 0
    undecided = []
    per_query = max(20.0, timeout / 4.0)        # a path obligation that does not finish must not starve the others
    for idx, p in enumerate(paths):
        goals = []
        if p.exc:
            if p.exc == 'ValueError' and not p.out:
                goals.append(valid)
            else:
                goals.append(z3.BoolVal(True))
        else:
            if len(p.out) < 2:
                continue
            a, b = p.out[0], p.out[1]
            prod = z3.fpMul(z3.RNE(), a, factor)
            law = z3.If(z3.fpIsZero(a), z3.fpEQ(b, z3.If(z3.fpGEQ(stop, one), one, stop)),
                        z3.If(z3.And(z3.fpLT(a, stop), z3.fpLEQ(prod, stop)), z3.fpEQ(b, prod), z3.fpEQ(b, stop)))
            # from any state satisfying the invariant (a = start in [0, stop]) the next value is >= a, <= stop and follows the law
            goals.append(z3.And(valid, z3.Not(z3.And(z3.fpEQ(a, start), z3.fpGEQ(b, a), z3.fpLEQ(b, stop), law))))
            goals.append(z3.Not(valid))
        s = z3.Solver()
        s.add(*p.cond)
        s.add(z3.Or(*goals))
        fname = os.path.join(work, 'c15_fp_%d_%d.smt2' % (os.getpid(), idx))
        with open(fname, 'w') as fh:
            fh.write('(set-option :produce-models true)\n(set-logic QF_FP)\n' + s.to_smt2().replace('(set-info :status unknown)', '')
                     + '\n(get-value (start stop factor))\n')
        try:
            import sys
            raw = subprocess.run([sys.executable, '-m', 'vf.cvc5_run', fname, str(per_query)], capture_output=True, text=True, timeout=per_query + 30).stdout
            engine = raw.split('\n', 1)[0].replace('ENGINE ', '') if raw.startswith('ENGINE') else 'cvc5'
            out = raw.split('\n', 1)[1].strip() if raw.startswith('ENGINE') and '\n' in raw else raw.strip()
        except subprocess.TimeoutExpired:
            out = 'timeout'
        finally:
            try:
                os.remove(fname)
            except OSError:
                pass
        queries += 1
        checked += 1
        if out.split()[:1] == ['sat']:
            vals = _fp_model(out)
            if vals is None or not all(k in vals for k in ('start', 'stop', 'factor')):
                return {'verdict': 'inconclusive', 'message': 'cvc5 found an IEEE-754 counterexample candidate on path %d but its model could not be read: %r' % (idx, out[:200]),
                        'paths': len(paths)}
            F = fractions.Fraction
            return {'verdict': 'counterexample', 'message': 'backoff_iter in IEEE-754 doubles: start=%r stop=%r factor=%r (path %d)' % (vals['start'], vals['stop'], vals['factor'], idx),
                    'call_args': '%r, %r, %r, 4' % (str(F(vals['start'])), str(F(vals['stop'])), str(F(vals['factor']))),
                    'replay_function': 'replay_backoff', 'paths': len(paths), 'solver_queries': queries}
        # the trailing (get-value ...) legitimately fails after an unsat answer; any OTHER error line makes the answer inconclusive
        rest = out.replace('(error "Cannot get value unless after a SAT or UNKNOWN response.")', '').replace(
            '(error "cannot get value unless after a SAT or UNKNOWN response.")', '')
        if out.split()[:1] != ['unsat'] or '(error' in rest:
            # undecided: remember it, but go on - a later path obligation may still yield a counterexample
            undecided.append('path %d: cvc5: %r' % (idx, out[:120]))
            continue
    if undecided:
        return {'verdict': 'inconclusive', 'message': '; '.join(undecided)[:400], 'paths': len(paths)}
    if checked == 0:
        return {'verdict': 'error', 'message': 'no path reached the second yield'}
    return {'verdict': 'confirmed', 'paths': len(paths), 'completed': len(paths), 'witness': checked,
            'samples': [{'logic': 'QF_FP (%s)' % engine, 'paths': len(paths), 'queries': queries}], 'solver_queries': queries, 'solver_s': round(time.time() - t0, 2)}


def obligations(tier):
    q = tier == 'quick'
    K = 5 if q else 12
    obs = [Ob('sequence_reals', timeout=300 if q else 1500, kind='direct', pins={'mode': 'count', 'K': K}, name='sequence_reals[count<=%d]' % K),
           Ob('sequence_reals', timeout=300 if q else 1500, kind='direct', pins={'mode': 'repeat', 'K': 5 if q else 12}, name='sequence_reals[repeat]'),
           Ob('sequence_reals', timeout=300 if q else 1500, kind='direct', pins={'mode': 'jitter', 'K': 3 if q else 6}, name='sequence_reals[jitter]'),
           Ob('ieee_step', timeout=120 if q else 600, kind='direct', name='ieee_step[cvc5]')]
    for fac in ([2, 1], [10, 1], [3, 2]):
        obs.append(Ob('default_count', timeout=300 if q else 1500, kind='direct', pins={'factor': fac, 'K': 5 if q else 10}, name='default_count[factor=%d/%d]' % tuple(fac)))
    obs.append(Ob('default_count', timeout=300 if q else 1500, kind='direct', pins={'factor': [3, 2], 'K': 3 if q else 6, 'symbolic_factor': 1}, name='default_count[factor>=3/2 symbolic]'))
    return obs

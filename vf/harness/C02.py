"""C02 LRI/LRU stay within capacity, evict strictly by recency, count lookups, copy faithfully.

Engine E1.  Pre-state: n symbolic-identity keys assigned in order into a cache of
symbolic capacity 1..3 (forces evictions / anchor rotation / re-assignment moves),
optionally one removal; then ONE pinned operation with symbolic key arguments.
Oracle: reference cache = recency list + capacity + three counters + on_miss call
log.  Recency order is observed through the public API only (insert max_size fresh keys
and watch the old ones disappear, then look every survivor up).
"""
from boltons.cacheutils import LRI, LRU
from vf.rt import K, cz, pin, pinval, assume, fail, done, notrace, labels
from vf.check import Ob

PROPERTY = 'C02'
_M = 'boltons.cacheutils.LRI.'
TARGETS = [_M + m for m in (
    '__init__', '_init_ll', '_get_link_and_move_to_front_of_ll', '_set_key_and_add_to_front_of_ll',
    '_set_key_and_evict_last_in_ll', '_remove_from_ll', '__setitem__', '__getitem__', 'get', '__delitem__',
    'pop', 'popitem', 'clear', 'copy', 'setdefault', 'update', '__ior__', '__eq__', '__ne__')] + [
    'boltons.cacheutils.LRU.__getitem__']
BOUNDS = {
    'quick': {'max_size': '1..3 (symbolic)', 'pre_state_assignments': '0..4 (0..3 for two-key operations)',
              'optional_pre_removal': True, 'operations_after_pre_state': 1, 'classes': 'LRI, LRU',
              'on_miss': 'None and a key-dependent function'},
    'thorough': {'max_size': '1..4', 'pre_state_assignments': '0..5', 'operations_after_pre_state': 2},
}
ASSUMPTIONS = ['keys interact with the cache only through ==/hash', 'lookups = [], get, setdefault (pop and `in` are not counted, as documented)',
               'popitem may return any present item', 'the copy is not required to share on_miss or counters']
OUT_OF_CLAIM = ['max_size above the bound (the only size-dependent branch is len < max_size)',
                'longer histories than pre-state + operations', 'constructor values= larger than 3']
STUBS = []

CLASSES = [LRI, LRU]
DFLT = -7
VALS = [None, DFLT, 102, 103, 104, 105]   # stored values: None, the very object used as default, plain ints
OPS = ['getitem', 'setitem', 'delitem', 'get', 'get_default', 'setdefault', 'update_mapping', 'update_pairs',
       'update_kw', 'ior', 'pop', 'pop_default', 'popitem', 'clear', 'copy', 'contains_eq', 'ctor_values',
       'update_cache']
NARGS = {'getitem': 1, 'setitem': 1, 'delitem': 1, 'get': 1, 'get_default': 1, 'setdefault': 1,
         'update_mapping': 2, 'update_pairs': 2, 'update_kw': 1, 'ior': 2, 'pop': 1, 'pop_default': 1,
         'popitem': 0, 'clear': 0, 'copy': 1, 'contains_eq': 1, 'ctor_values': 2, 'update_cache': 2}


def f_miss(k):
    return ('made', k.i if isinstance(k, K) else k)


class Model:
    def __init__(self, ms, lru, on_miss):
        self.ms, self.lru, self.on_miss = ms, lru, on_miss
        self.items = []          # oldest -> newest
        self.h = self.m = self.s = 0
        self.calls = []

    def has(self, k):
        return any(a == k for a, b in self.items)

    def val(self, k):
        for a, b in self.items:
            if a == k:
                return b
        raise KeyError(k)

    def assign(self, k, v):
        if self.has(k):
            self.items = [(a, b) for a, b in self.items if not (a == k)] + [(k, v)]
        else:
            if len(self.items) >= self.ms:
                self.items.pop(0)
            self.items.append((k, v))

    def remove(self, k):
        self.items = [(a, b) for a, b in self.items if not (a == k)]

    def lookup(self, k):
        """returns (found, value)"""
        if self.has(k):
            self.h += 1
            v = self.val(k)
            if self.lru:
                self.items = [(a, b) for a, b in self.items if not (a == k)] + [(k, v)]
            return True, v
        self.m += 1
        if self.on_miss:
            v = f_miss(k)
            self.calls.append(k)
            self.assign(k, v)
            return True, v
        return False, None

    def clone(self):
        c = Model(self.ms, self.lru, self.on_miss)
        c.items = list(self.items)
        c.h, c.m, c.s = self.h, self.m, self.s
        c.calls = list(self.calls)
        return c


def state_ok(c, M, calls_log):
    """static checks (non destructive); returns clause or None"""
    if len(c) > M.ms:
        return 'capacity_exceeded'
    if len(c) != len(M.items):
        return 'len'
    d = list(dict.items(c))
    if len(d) != len(M.items):
        return 'contents_len'
    for k, v in M.items:
        hit = [b for a, b in d if a == k]
        if len(hit) != 1 or not (hit[0] == v):
            return 'contents'
        if not (k in c):
            return 'contains'
    ks = list(c)
    if len(ks) != len(M.items) or any(not M.has(k) for k in ks):
        return 'iteration'
    if c.hit_count != M.h:
        return 'hit_count'
    if c.miss_count != M.m:
        return 'miss_count'
    if c.soft_miss_count != M.s:
        return 'soft_miss_count'
    if c.soft_miss_count > c.miss_count:
        return 'soft_gt_miss'
    if calls_log != M.calls:
        return 'on_miss_calls'
    if c.max_size != M.ms:
        return 'max_size_changed'
    return None


def eviction_probe(c, M):
    """destructive: insert max_size fresh keys; old keys must vanish oldest first"""
    old = [k for k, v in M.items]
    for i in range(M.ms):
        c[K(1000 + i)] = i
        M.assign(K(1000 + i), i)
        if len(c) > M.ms:
            return 'capacity_exceeded_in_probe'
        for k in old:
            if (k in c) != M.has(k):
                return 'eviction_order'
        for k, v in M.items:
            if not (dict.get(c, k, None) == v):
                return 'value_lost_in_probe'
    if len(c) != M.ms:
        return 'probe_final_len'
    # finally read every surviving key through the cache's own lookup
    for k, v in list(M.items):
        try:
            if not (c[k] == v):
                return 'probe_lookup_value'
        except KeyError:
            return 'probe_lookup_keyerror'
    return None


def mk(cls, ms, on_miss, log):
    if on_miss:
        def om(k):
            log.append(k)
            return f_miss(k)
        return cls(max_size=ms, on_miss=om)
    return cls(max_size=ms)


class KeysOnly:
    """the minimal mapping dict.update() accepts: keys() and __getitem__"""
    def __init__(self, pairs):
        self.pairs = list(dict(pairs).items())

    def keys(self):
        return [a for a, b in self.pairs]

    def __getitem__(self, k):
        for a, b in self.pairs:
            if a == k:
                return b
        raise KeyError(k)


def apply_op(c, M, cls, name, kk, kk2, log, on_miss):
    """returns clause or None; M is updated in place"""
    v, v2 = 200, 201
    if name == 'getitem':
        found, exp = M.lookup(kk)
        try:
            r = c[kk]
            if not found or not (r == exp):
                return 'getitem_return'
        except KeyError:
            if found:
                return 'getitem_keyerror'
    elif name == 'setitem':
        c[kk] = v
        M.assign(kk, v)
    elif name == 'delitem':
        try:
            del c[kk]
            if not M.has(kk):
                return 'del_absent'
        except KeyError:
            if M.has(kk):
                return 'del_keyerror'
        M.remove(kk)
    elif name in ('get', 'get_default'):
        found, exp = M.lookup(kk)
        r = c.get(kk) if name == 'get' else c.get(kk, DFLT)
        if not found:
            M.s += 1
            exp = None if name == 'get' else DFLT
        if not (r == exp):
            return 'get_return'
    elif name == 'setdefault':
        found, exp = M.lookup(kk)
        r = c.setdefault(kk, v)
        if not found:
            M.s += 1
            M.assign(kk, v)
            exp = v
        if not (r == exp):
            return 'setdefault_return'
    elif name in ('update_mapping', 'ior'):
        d = {}
        d[kk] = v
        d[kk2] = v2
        if name == 'ior':
            c0 = c
            c |= d
            if c is not c0:
                return 'ior_identity'
        else:
            c.update(d)
        for a, b in list(d.items()):
            M.assign(a, b)
    elif name == 'update_pairs':
        c.update(iter([(kk, v), (kk2, v2)]))
        M.assign(kk, v)
        M.assign(kk2, v2)
    elif name == 'update_kw':
        c.update([(kk, v)], kwx=v2)
        M.assign(kk, v)
        M.assign('kwx', v2)
    elif name in ('pop', 'pop_default'):
        present = M.has(kk)
        try:
            r = c.pop(kk) if name == 'pop' else c.pop(kk, DFLT)
        except KeyError:
            if present or name != 'pop':
                return 'pop_keyerror'
            return None
        if present:
            if not (r == M.val(kk)):
                return 'pop_return'
        elif name == 'pop' or not (r == DFLT):
            return 'pop_default'
        M.remove(kk)
    elif name == 'popitem':
        try:
            a, b = c.popitem()
        except KeyError:
            if M.items:
                return 'popitem_keyerror'
            return None
        if not M.has(a) or not (M.val(a) == b):
            return 'popitem_return'
        M.remove(a)
    elif name == 'clear':
        c.clear()
        M.items = []
    elif name == 'copy':
        before = M.clone()
        c2 = c.copy()
        if type(c2) is not cls or c2 is c:
            return 'copy_type'
        cl = state_ok(c, before, log)          # source untouched: contents, order, counters
        if cl:
            return 'copy_changed_source_' + cl
        M2 = M.clone()
        M2.h, M2.m, M2.s, M2.calls = c2.hit_count, c2.miss_count, c2.soft_miss_count, list(log)
        cl = state_ok(c2, M2, log)
        if cl:
            return 'copy_' + cl
        c2[kk] = v                               # independence
        c2.pop(kk2, None)
        cl = state_ok(c, before, log)
        if cl:
            return 'copy_not_independent_' + cl
        M2.assign(kk, v)
        M2.remove(kk2)
        cl = state_ok(c2, M2, log)
        if cl:
            return 'copy_after_mutation_' + cl
        cl = eviction_probe(c2, M2)
        if cl:
            return 'copy_' + cl
        cl = state_ok(c, before, log)
        if cl:
            return 'copy_not_independent_' + cl
    elif name == 'contains_eq':
        if (kk in c) != M.has(kk):
            return 'contains'
        plain = dict(M.items)
        if not (c == plain) or (c != plain):
            return 'eq_plain'
        other = cls(max_size=M.ms + 1, values=list(M.items))
        if not (c == other) or (c != other):
            return 'eq_cache'
        plain[kk] = -3
        if (c == plain) or not (c != plain):
            return 'eq_differs'
        if not (c == c):
            return 'eq_self'
    elif name == 'ctor_values':
        pairs = [(kk, v), (kk2, v2)]
        c3 = cls(max_size=M.ms, values=list(pairs))
        M3 = Model(M.ms, M.lru, None)
        M3.assign(kk, v)
        M3.assign(kk2, v2)
        cl = state_ok(c3, M3, [])
        if cl:
            return 'ctor_values_' + cl
        c4 = cls(max_size=M.ms, values=dict(pairs))
        cl = state_ok(c4, M3, [])
        if cl:
            return 'ctor_mapping_' + cl
    elif name == 'update_cache':
        # update from another cache (E has .keys()): E[k] lookups on E are E's business
        src = cls(max_size=3, values=[(kk, v), (kk2, v2)])
        c.update(src)
        for a, b in list(dict.items(src)):
            M.assign(a, b)
        c.update(c)                              # E is self: no-op
        # a source that only follows the dict protocol of update(): keys() and __getitem__, no items(), no __iter__
        ko = KeysOnly([(kk, v2), (kk2, v)])
        c.update(ko)
        for a, b in ko.pairs:
            M.assign(a, b)
        # a plain mapping EQUAL to the whole cache, listed newest first: contents stay, every key is re-assigned in that order
        d = dict(reversed(list(M.items)))
        c.update(d)
        for a, b in list(d.items()):
            M.assign(a, b)
    else:
        raise AssertionError(name)
    return None


def _body(ci, om, name, ms, n, pre_del, ks, na):
    cls = CLASSES[ci]
    log = []
    c = mk(cls, ms, om, log)
    M = Model(ms, ci == 1, om)
    for i in range(n):
        val = VALS[i]                    # includes None and a value identical to the defaults used below
        c[K(ks[i])] = val
        M.assign(K(ks[i]), val)
        if len(c) > ms:
            return fail('capacity_exceeded', 'during pre-state')
    if pre_del and n:
        c.pop(K(ks[0]), None)
        M.remove(K(ks[0]))
    cl = state_ok(c, M, log)
    if cl:
        return fail('pre_' + cl, 'pre-state')
    kk, kk2 = [K(x) for x in (ks[n:] + [90, 91])[:2]]
    cl = apply_op(c, M, cls, name, kk, kk2, log, om)
    if cl:
        return fail(cl, name)
    cl = state_ok(c, M, log)
    if cl:
        return fail(name + '_then_' + cl, 'ms=%d n=%d' % (ms, n))
    evicted = n > ms
    cl = eviction_probe(c, M)
    if cl:
        return fail(name + '_then_' + cl, 'ms=%d n=%d' % (ms, n))
    return done(True, kind='evicting' if evicted else 'plain', op=name, ms=ms, n=n, cls=cls.__name__, on_miss=om)


def cache_step(ci: int, om: int, ms: int, n: int, pre_del: int, a0: int, a1: int, a2: int, a3: int, a4: int,
               op: int, k: int, k2: int) -> bool:
    """
    pre: 1 <= ms <= 4 and 0 <= n <= 5 and 0 <= pre_del <= 1
    post: _
    """
    ci = pin('cls', ci, 0, 1)
    om = pin('on_miss', om, 0, 1)
    op = pin('op', op, 0, len(OPS) - 1)
    name = OPS[op]
    ms = cz(ms, 1, pinval('msmax', 3))
    n = cz(n, 0, pinval('nmax', 3))
    pre_del = cz(pre_del, 0, 1)
    na = NARGS[name]
    ks = labels([a0, a1, a2, a3, a4][:n] + [k, k2][:na])
    with notrace():
        return _body(ci, om, name, ms, n, pre_del, ks, na)


def _body2(ci, om, name, name_b, ms, n, ks, nids, nb):
    cls = CLASSES[ci]
    log = []
    c = mk(cls, ms, om, log)
    M = Model(ms, ci == 1, om)
    for i in range(n):
        c[K(ks[i])] = VALS[i]
        M.assign(K(ks[i]), VALS[i])
    kk, kk2 = [K(x) for x in (ks[n:n + nids] + [90, 91])[:2]]
    kk3 = K(ks[-1]) if nb else K(92)
    cl = apply_op(c, M, cls, name, kk, kk2, log, om)
    if cl:
        return fail(cl, name)
    cl = state_ok(c, M, log)
    if cl:
        return fail(name + '_then_' + cl)
    cl = apply_op(c, M, cls, name_b, kk3, kk, log, om)
    if cl:
        return fail(cl, name + ',' + name_b)
    cl = state_ok(c, M, log)
    if cl:
        return fail(name + '_' + name_b + '_then_' + cl)
    cl = eviction_probe(c, M)
    if cl:
        return fail(name + '_' + name_b + '_then_' + cl)
    return done(True, kind='evicting' if n > ms else 'plain', op=name, op_b=name_b, ms=ms, n=n)


def cache_step2(ci: int, om: int, ms: int, n: int, a0: int, a1: int, a2: int, a3: int,
                op: int, k: int, k2: int, op_b: int, k3: int) -> bool:
    """
    pre: 1 <= ms <= 4 and 0 <= n <= 4
    post: _
    """
    ci = pin('cls', ci, 0, 1)
    om = pin('on_miss', om, 0, 1)
    op = pin('op', op, 0, len(OPS) - 1)
    op_b = pin('op_b', op_b, 0, len(OPS) - 1)
    name, name_b = OPS[op], OPS[op_b]
    ms = cz(ms, 1, pinval('msmax', 3))
    n = cz(n, 0, pinval('nmax', 3))
    na, nb = NARGS[name], NARGS[name_b]
    nids = max(na, 1 if nb == 2 else 0)
    ks = labels([a0, a1, a2, a3][:n] + [k, k2][:nids] + ([k3] if nb else []))
    with notrace():
        return _body2(ci, om, name, name_b, ms, n, ks, nids, nb)


def obligations(tier):
    obs = []
    q = tier == 'quick'
    T = 170 if q else 1200
    for ci in (0, 1):
        for om in (0, 1):
            for op, name in enumerate(OPS):
                if q:
                    nmax = 3 if NARGS[name] == 2 else 4
                    obs.append(Ob('cache_step', timeout=T, pins={'cls': ci, 'on_miss': om, 'op': op, 'nmax': nmax, 'msmax': 3}))
                else:
                    obs.append(Ob('cache_step', timeout=T, pins={'cls': ci, 'on_miss': om, 'op': op, 'nmax': 5 if NARGS[name] < 2 else 4, 'msmax': 4}))
    if not q:
        for ci in (0, 1):
            for op in range(len(OPS)):
                for op_b in range(len(OPS)):
                    if OPS[op] in ('ctor_values', 'contains_eq') or OPS[op_b] not in ('getitem', 'setitem', 'delitem', 'setdefault', 'popitem', 'copy', 'update_pairs'):
                        continue
                    obs.append(Ob('cache_step2', timeout=T, pins={'cls': ci, 'on_miss': (op + op_b) % 2, 'op': op, 'op_b': op_b, 'nmax': 3, 'msmax': 3}))
    return obs

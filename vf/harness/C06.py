"""C06 URL components survive render->parse; parsing fails only with URLParseError.

Three layers, all regenerated from the imported boltons.urlutils:
 1. table lemma (direct z3): each of the four *_QUOTE_MAP tables and _HEX_CHAR_MAP is turned into
    a z3 function of a symbolic byte; the negated RFC 3986 legality / escaping / inversion
    property must be unsat.
 2. component cells (E1): one or two symbolic ASCII characters inside one component, through the
    real from_parts / to_text / URL() / quote_*_part / unquote.
 3. totality (E1): URL(text) and find_all_links(text) on symbolic text.
"""
import boltons.urlutils as uu
from boltons.urlutils import URL, URLParseError, find_all_links
from vf.rt import internal, cz, pin, pinval, assume, fail, done, notrace
from vf.check import Ob

PROPERTY = 'C06'
TARGETS = ['boltons.urlutils.quote_path_part', 'boltons.urlutils.quote_query_part', 'boltons.urlutils.quote_fragment_part',
           'boltons.urlutils.quote_userinfo_part', 'boltons.urlutils._make_quote_map', 'boltons.urlutils.URL.to_text',
           'boltons.urlutils.URL.get_authority', 'boltons.urlutils.QueryParamDict.to_text', 'boltons.urlutils.QueryParamDict.from_text',
           'boltons.urlutils.parse_url', 'boltons.urlutils.parse_host', 'boltons.urlutils.parse_qsl', 'boltons.urlutils.unquote',
           'boltons.urlutils.unquote_to_bytes', 'boltons.urlutils.URL.__init__', 'boltons.urlutils.URL.from_parts',
           'boltons.urlutils.find_all_links']
BOUNDS = {
    'quick': {'tables': 'all 256 byte values x 4 tables + all 2-hex-digit escapes', 'cells': 'one symbolic ASCII character in each of 6 components, full and minimal quoting',
              'totality': 'URL(text) and find_all_links: 1 free character (2 in thorough) from all 128 ASCII characters + 22 non-ASCII class representatives, alone and inside 11 URL skeletons'},
    'thorough': {'cells': 'two adjacent ASCII characters: minimal-quoting aspect for all of them, round-trip aspect (both symbolic) for punctuation x punctuation', 'totality': 'two free characters (all skeletons; 5 of the 10 link contexts)'},
}
ASSUMPTIONS = ['Unicode NFC normalisation is the identity on ASCII text (unicodedata.normalize is stubbed accordingly inside the cells)',
               'RFC 3986 character sets as written in this harness (pchar, query, fragment, userinfo)']
OUT_OF_CLAIM = ['non-ASCII component text (NFC, UTF-8 encoding and IDNA run in C / codec code): only the table lemma covers the byte level',
                'URL texts from the full RFC grammar beyond the skeleton lengths', 'component values longer than context + 2 symbolic characters']
STUBS = ['boltons.urlutils.normalize -> identity with an is-ASCII assertion (cells only)']

UNRESERVED = set('ABCDEFGHIJKLMNOPQRSTUVWXYZabcdefghijklmnopqrstuvwxyz0123456789-._~')
SUB_DELIMS = set("!$&'()*+,;=")
PCHAR = UNRESERVED | SUB_DELIMS | set(':@')
RFC_LEGAL = {
    'userinfo': UNRESERVED | SUB_DELIMS,                       # ':' separates user from password, so it is not legal raw inside either
    'path': PCHAR,
    'query': (PCHAR | set('/?')) - set('&=+;'),                  # minus the characters that structure key/value pairs
    'fragment': PCHAR | set('/?'),
}
TABLES = {'userinfo': '_USERINFO_PART_QUOTE_MAP', 'path': '_PATH_PART_QUOTE_MAP', 'query': '_QUERY_PART_QUOTE_MAP',
          'fragment': '_FRAGMENT_QUOTE_MAP'}
HEX = '0123456789ABCDEF'


# ------------------------------------------------------------------ layer 1: table lemma in z3
def table_lemma(pins, timeout):
    import z3
    queries = 0
    b = z3.BitVec('b', 8)
    for comp, tname in TABLES.items():
        table = internal(uu, tname)
        # encode the table as three functions of the byte: raw (bool), escape digits hi/lo (ints)
        is_raw = z3.BoolVal(False)
        well_formed = z3.BoolVal(True)
        legal = z3.BoolVal(False)
        for v in range(256):
            if v in (0xC0, 0xC1) or v >= 0xF5:
                continue                     # bytes that never occur in UTF-8: unreachable through the quoting functions
            out = table[v]
            if table[chr(v)] != out:
                return {'verdict': 'counterexample', 'message': '%s: int and chr keys disagree for %d' % (tname, v),
                        'call_args': '%r, %d' % (comp, v), 'replay_function': 'replay_table', 'paths': queries}
            here = b == v
            if out == chr(v):
                is_raw = z3.Or(is_raw, here)
            else:
                ok = len(out) == 3 and out[0] == '%' and out[1] == HEX[v >> 4] and out[2] == HEX[v & 15]
                if not ok:
                    well_formed = z3.And(well_formed, z3.Not(here))
            if chr(v) in RFC_LEGAL[comp]:
                legal = z3.Or(legal, here)
        s = z3.Solver()
        s.set('timeout', int(timeout * 1000))
        # negated property: some byte is emitted raw although illegal there, or is escaped but not as %XX of itself
        s.add(z3.Or(z3.And(is_raw, z3.Not(legal)), z3.Not(well_formed)))
        r = s.check()
        queries += 1
        if str(r) == 'sat':
            v = s.model()[b].as_long()
            return {'verdict': 'counterexample', 'message': '%s[%d] = %r' % (tname, v, table[v]),
                    'call_args': '%r, %d' % (comp, v), 'replay_function': 'replay_table', 'paths': queries}
        if str(r) != 'unsat':
            return {'verdict': 'inconclusive', 'message': 'z3: %s' % r, 'paths': queries}
    # _HEX_CHAR_MAP inverts every %XX escape, case-insensitively
    hi, lo = z3.BitVec('hi', 8), z3.BitVec('lo', 8)
    good = z3.BoolVal(False)
    hm = internal(uu, '_HEX_CHAR_MAP')
    digits = '0123456789abcdefABCDEF'
    for a in digits:
        for c in digits:
            val = hm.get((a + c).encode('ascii'))
            if val == bytes([int(a + c, 16)]):
                good = z3.Or(good, z3.And(hi == ord(a), lo == ord(c)))
    ishex = lambda x: z3.Or(z3.And(x >= 48, x <= 57), z3.And(x >= 65, x <= 70), z3.And(x >= 97, x <= 102))
    s = z3.Solver()
    s.add(ishex(hi), ishex(lo), z3.Not(good))
    r = s.check()
    queries += 1
    if str(r) == 'sat':
        m = s.model()
        return {'verdict': 'counterexample', 'message': 'hex map misses %c%c' % (m[hi].as_long(), m[lo].as_long()),
                'call_args': '%r, %d' % ('hex', m[hi].as_long() * 256 + m[lo].as_long()), 'replay_function': 'replay_table', 'paths': queries}
    extra = sorted(k for k in hm if not (isinstance(k, bytes) and len(k) == 2 and all(chr(x) in digits for x in k)))
    if extra:
        return {'verdict': 'counterexample', 'message': 'hex map has entries for non-escapes: %r' % extra[:3], 'call_args': "'hexextra', %r" % (extra[0],),
                'replay_function': 'replay_table', 'paths': queries}
    return {'verdict': 'confirmed', 'paths': queries, 'completed': queries, 'witness': queries,
            'samples': [{'tables': sorted(TABLES.values()), 'queries': queries}], 'solver_queries': queries}


def _text_with_byte(v):
    """a text whose NFC/UTF-8 form contains byte v (None for bytes that never occur in UTF-8)"""
    import unicodedata
    if v < 128:
        return chr(v)
    cands = list(range(0x80, 0x800)) + list(range(0x800, 0x10000, 0x40)) + list(range(0x10000, 0x110000, 0x1000))
    for cp in cands:
        if 0xD800 <= cp <= 0xDFFF:
            continue
        t = chr(cp)
        if unicodedata.normalize('NFC', t) == t and v in t.encode('utf-8'):
            return t
    return None


def replay_table(comp, v):
    """confirm a table-level counterexample THROUGH THE PUBLIC FUNCTIONS (the tables are an implementation detail:
    what the property states is the behaviour of quote_*_part / unquote)"""
    if comp == 'hexextra':
        raw = b'%' + v
        return True if uu.unquote_to_bytes(raw) == raw else fail('unquote_decodes_malformed_escape', '%r -> %r' % (raw, uu.unquote_to_bytes(raw)))
    if comp == 'hex':
        key = bytes([v >> 8, v & 255])
        if uu.unquote_to_bytes(b'%' + key) == bytes([int(key.decode(), 16)]):
            return True
        return fail('unquote_misses_escape', 'unquote_to_bytes(%r) = %r' % (b'%' + key, uu.unquote_to_bytes(b'%' + key)))
    quoter = {'userinfo': uu.quote_userinfo_part, 'path': uu.quote_path_part, 'query': uu.quote_query_part, 'fragment': uu.quote_fragment_part}[comp]
    text = _text_with_byte(v)
    if text is None:
        return True
    out = quoter(text, full_quote=True)
    i = 0
    while i < len(out):
        c = out[i]
        if c == '%':
            if not (i + 2 < len(out) + 0 and out[i + 1] in '0123456789ABCDEFabcdef' and out[i + 2] in '0123456789ABCDEFabcdef'):
                return fail('quoted_text_bad_escape', '%s(%r) = %r' % (comp, text, out))
            i += 3
            continue
        if c not in RFC_LEGAL[comp]:
            return fail('quoted_text_illegal_character', '%s(%r) = %r emits %r raw' % (comp, text, out, c))
        i += 1
    if uu.unquote(out) != text:
        return fail('quote_not_undone_by_unquote', '%s(%r) = %r -> %r' % (comp, text, out, uu.unquote(out)))
    return True


# ------------------------------------------------------------------ layer 2: component cells
COMPONENTS = ['username', 'password', 'segment', 'qkey', 'qvalue', 'fragment']
LEGAL_OF = {'username': 'userinfo', 'password': 'userinfo', 'segment': 'path', 'qkey': 'query', 'qvalue': 'query', 'fragment': 'fragment'}
QUOTERS = {'username': uu.quote_userinfo_part, 'password': uu.quote_userinfo_part, 'segment': uu.quote_path_part,
           'qkey': uu.quote_query_part, 'qvalue': uu.quote_query_part, 'fragment': uu.quote_fragment_part}


def _ascii_norm(form, s):
    assert s.isascii()
    return s


def is_legal(c, kind):
    """is character c legal raw at a position of this kind (RFC 3986), or part of a %XX escape"""
    if ('a' <= c <= 'z') or ('A' <= c <= 'Z') or ('0' <= c <= '9') or c == '-' or c == '.' or c == '_' or c == '~' or c == '%':
        return True
    sub = (c == '!' or c == '$' or c == "'" or c == '(' or c == ')' or c == '*' or c == ',')
    if kind == 'userinfo':
        return sub or c == '&' or c == '+' or c == ';' or c == '='
    if kind == 'path':
        return sub or c == '&' or c == '+' or c == ';' or c == '=' or c == ':' or c == '@'
    if kind == 'query':
        return sub or c == ':' or c == '@' or c == '/' or c == '?'
    return sub or c == '&' or c == '+' or c == ';' or c == '=' or c == ':' or c == '@' or c == '/' or c == '?'


def build(vals):
    return URL.from_parts(scheme='http', host='h.com', port=8080, path_parts=('', 'p', vals['segment'], 'q'),
                          query_params=[(vals['qkey'], vals['qvalue'])], fragment=vals['fragment'],
                          username=vals['username'], password=vals['password'])


def _in_range(c, rng):
    o = ord(c)
    if rng == 0:
        return o < 33
    if rng == 1:
        return 33 <= o < 65
    if rng == 2:
        return 65 <= o < 97
    return 97 <= o <= 127


def cell_law(c1: str, c2: str) -> bool:
    """
    pre: len(c1) == 1 and len(c2) == 1
    post: _
    """
    comp = COMPONENTS[pinval('comp', 0)]
    two = pinval('two', 0)
    aspect = pinval('aspect', 0)         # 0 round trip, 1 quoting legality + unquote, 2 minimal-quoting fixed point
    rng = pinval('range')
    assume(ord(c1) < 128)
    if rng is not None:
        assume(_in_range(c1, rng))
    if two:
        assume(ord(c2) < 128)
        if pinval('range2') is not None:
            assume(_in_range(c2, pinval('range2')))
        sym = c1 + c2
    else:
        sym = c1
    vals = {'username': 'us', 'password': 'pw', 'segment': 'sg', 'qkey': 'ke', 'qvalue': 'va', 'fragment': 'fr'}
    vals[comp] = 'a' + sym + 'b'
    saved = uu.normalize
    uu.normalize = _ascii_norm
    try:
        if aspect == 1:
            quoted = QUOTERS[comp](vals[comp], full_quote=True)
            for i in range(len(quoted)):
                if not is_legal(quoted[i], LEGAL_OF[comp]):
                    return fail('illegal_character_in_rendered_component', 'comp=%s value=%r rendered %r' % (comp, vals[comp], quoted))
            if uu.unquote(quoted) != vals[comp]:
                return fail('unquote_does_not_undo_quote', 'comp=%s value=%r quoted=%r' % (comp, vals[comp], quoted))
            u = build(vals)
            text = u.to_text(full_quote=True)
            parts = {k: QUOTERS[k](v, full_quote=True) for k, v in vals.items() if k != comp}
            parts[comp] = quoted
            exp_text = 'http://%s:%s@h.com:8080/p/%s/q?%s=%s#%s' % (parts['username'], parts['password'], parts['segment'],
                                                                   parts['qkey'], parts['qvalue'], parts['fragment'])
            if text != exp_text:
                return fail('render_skeleton', 'comp=%s value=%r text=%r expected %r' % (comp, vals[comp], text, exp_text))
            return done(True, kind=comp)
        u = build(vals)
        if aspect == 0:
            text = u.to_text(full_quote=True)
            u2 = URL(text)
            got = {'username': u2.username, 'password': u2.password, 'segment': u2.path_parts[2] if len(u2.path_parts) == 4 else None,
                   'fragment': u2.fragment}
            items = u2.query_params.items(multi=True)
            if len(items) == 1:
                got['qkey'], got['qvalue'] = items[0]
            else:
                got['qkey'] = got['qvalue'] = None
            for k in COMPONENTS:
                if got[k] != vals[k]:
                    return fail('component_not_recovered', 'comp=%s value=%r text=%r: %s came back as %r' % (comp, vals[comp], text, k, got[k]))
            if u2.scheme != 'http' or u2.host != 'h.com' or u2.port != 8080 or len(u2.path_parts) != 4:
                return fail('neighbour_component_changed', 'comp=%s value=%r text=%r' % (comp, vals[comp], text))
            if u2.to_text(full_quote=True) != text:
                return fail('full_quote_not_fixed_point', 'comp=%s value=%r text=%r -> %r' % (comp, vals[comp], text, u2.to_text(full_quote=True)))
            return done(True, kind=comp)
        # aspect 2: minimal quoting is a fixed point whenever no decoded component contains '%'.
        # Minimal quoting tests `ch in frozenset` (a hash lookup that would realise a symbolic character
        # to one model value), so the code point is concretised first by exhaustive forking.
        lo, hi = [(0, 32), (33, 64), (65, 96), (97, 127)][rng if rng is not None else 0]
        code = cz(ord(c1), lo, hi)
        lo2, hi2 = [(0, 32), (33, 64), (65, 96), (97, 127)][pinval('range2')] if pinval('range2') is not None else (0, 127)
        sym = chr(code) + (chr(cz(ord(c2), lo2, hi2)) if two else '')
        for i in range(len(sym)):
            assume(sym[i] != '%')
        vals[comp] = 'a' + sym + 'b'
        u = build(vals)
        tmin = u.to_text(full_quote=False)
        u3 = URL(tmin)
        if u3.to_text(full_quote=False) != tmin:
            return fail('minimal_quote_not_fixed_point', 'comp=%s value=%r text=%r -> %r' % (comp, vals[comp], tmin, u3.to_text(full_quote=False)))
        return done(True, kind=comp)
    finally:
        uu.normalize = saved


# ------------------------------------------------------------------ layer 3: totality
# URL() hands the host to inet_pton / the idna codec (C and codec code): a symbolic string would be realised
# to one model value there, so the characters are drawn by exhaustive forking from an explicit alphabet:
# every ASCII character plus representatives of the non-ASCII classes that take different routes.
NON_ASCII = ['\x80', '\xa0', '\xad', '\xb2', '\xbd', '\u0661', '\u2460', '\xdf', '\xe9', '\u0131', '\u0301', '\u200d', '\u2028', '\u3002', '\uff0e', '\uff61',
             '\ufb01', '\ud800', '\udfff', '\ufffd', '\U0001f600', '\U0010ffff']
ALPHABET = [chr(i) for i in range(128)] + NON_ASCII
SKELETONS = [lambda t: 'http://' + t, lambda t: 'http://h' + t + '/', lambda t: 'http://u@' + t + ':1/', lambda t: 'http://[' + t + ']/',
             lambda t: 'http://h:' + t, lambda t: 's:' + t + '?' + t, lambda t: 'http://h/%' + t, lambda t: 'http://xn--' + t + '.com',
             lambda t: t + '://h/', lambda t: 'http://[::1' + t, lambda t: '//' + t + '@h']


def _draw(n, codes):
    out = ''
    for i in range(n):
        out += ALPHABET[cz(codes[i], 0, len(ALPHABET) - 1)]
    return out


def _total_body(full):
    try:
        u = URL(full)          # construction only: the statement does not claim that rendering is total
        if not isinstance(u, URL):
            return fail('url_constructor_type')
    except URLParseError:
        return done(True, kind='rejected')
    return done(True, kind='parsed')


def url_total(n: int, k0: int, k1: int, k2: int) -> bool:
    """
    pre: 0 <= n <= 3
    post: _
    """
    n = cz(n, pinval('lmin', 0), pinval('lmax', 1))
    first = pinval('first')
    if first is not None and n:
        assume(k0 // 16 == first)
    text = _draw(n, [k0, k1, k2])
    sk = pinval('skeleton')
    full = SKELETONS[sk](text) if sk is not None else text
    with notrace():
        return _total_body(full)


def _links_body(full):
    r = find_all_links(full)
    r2 = find_all_links(full, with_text=True)
    find_all_links(full, default_scheme=False)
    find_all_links(full, default_scheme='ftp', schemes=('ftp',))
    if not isinstance(r, list) or not isinstance(r2, list):
        return fail('find_all_links_type')
    return done(True, kind='links' if r else 'nolinks')


def links_total(n: int, k0: int, k1: int) -> bool:
    """
    pre: 0 <= n <= 2
    post: _
    """
    n = cz(n, pinval('lmin', 0), pinval('lmax', 1))
    first = pinval('first')
    if first is not None and n:
        assume(k0 // 16 == first)
    text = _draw(n, [k0, k1])
    which = pinval('ctx', 0)
    full = ['see http://a.b/' + text + ' and more', 'www.x' + text, 'x ' + text + '://h.com) y', 'http://[' + text + ']/',
            'http://xn--' + text + '.de', 'ftp://u:p@h' + text + ':21/', 'see http://h.com:8' + text + ' ok',
            # scheme-less candidates (re-parsed with the default scheme): bad punycode label, port, bracket
            'go to www.xn--' + text + '.com now', 'www.x.com:8' + text + '/p', 'www.[' + text + ' x'][which]
    with notrace():
        return _links_body(full)


def obligations(tier):
    obs = []
    q = tier == 'quick'
    T = 170 if q else 1500
    obs.append(Ob('table_lemma', timeout=60, kind='direct'))
    for ci in range(len(COMPONENTS)):
        for aspect in range(3):
            for rng in range(4):
                obs.append(Ob('cell_law', timeout=T, pins={'comp': ci, 'two': 0, 'aspect': aspect, 'range': rng}))
                if not q:
                    # two free characters (measured): the round-trip aspect costs ~1 s per path on two symbolic characters
                    # (970 s for one range x range cell), so it runs for the punctuation x punctuation cell only, where the
                    # delimiters live; the per-character quoting aspect gains nothing from a second character; the
                    # minimal-quoting aspect (concretised code points) runs for every cell
                    for rng2 in range(4):
                        if aspect == 2:
                            obs.append(Ob('cell_law', timeout=T, pins={'comp': ci, 'two': 1, 'aspect': 2, 'range': rng, 'range2': rng2}))
                        elif aspect == 0 and rng == 1 and rng2 == 1:
                            obs.append(Ob('cell_law', timeout=2400, pins={'comp': ci, 'two': 1, 'aspect': 0, 'range': 1, 'range2': 1}))
    obs.append(Ob('url_total', timeout=T, pins={'lmin': 0, 'lmax': 1}, need_kinds=('parsed',)))
    for sk in range(len(SKELETONS)):
        obs.append(Ob('url_total', timeout=T, pins={'lmin': 0, 'lmax': 1, 'skeleton': sk}))
    if not q:
        for first in range(10):
            obs.append(Ob('url_total', timeout=T, pins={'lmin': 2, 'lmax': 2, 'first': first}))
            for sk in range(len(SKELETONS)):
                obs.append(Ob('url_total', timeout=T, pins={'lmin': 2, 'lmax': 2, 'skeleton': sk, 'first': first}))
    for ctx in range(10):
        obs.append(Ob('links_total', timeout=T, pins={'lmax': 1, 'ctx': ctx}))
        if not q and ctx in (0, 1, 2, 7, 9):
            for first in range(10):       # two free characters, partitioned by the first one (alphabet index // 16)
                obs.append(Ob('links_total', timeout=T, pins={'lmin': 2, 'lmax': 2, 'ctx': ctx, 'first': first}))
    return obs

"""C14 strutils encoders are exactly invertible: shell quoting, integer ranges (gzip clause not decided).

Engine E1.  args2sh / args2cmd: the argument list is [neighbour, a, neighbour] with ONE
symbolic argument `a` over all of Unicode without NUL (the output is a join of independent
per-argument encodings); the encoders run on CrossHair's symbolic strings and the result is
split again by an independent reference splitter written from the POSIX shell grammar
resp. the documented MS C runtime argv rules.  The splitters reject any unquoted character
that a shell would expand, glob, or treat as an operator/comment.
Integer lists: the set of integers is a solver-chosen bit mask.
"""
from boltons import strutils
from vf.rt import cz, pin, pinval, assume, fail, done, notrace
from vf.check import Ob

PROPERTY = 'C14'
TARGETS = ['boltons.strutils.args2sh', 'boltons.strutils.args2cmd', 'boltons.strutils.escape_shell_args',
           'boltons.strutils.format_int_list', 'boltons.strutils.parse_int_list',
           'boltons.strutils.complement_int_list', 'boltons.strutils.int_ranges_from_int_list']
BOUNDS = {
    'quick': {'sh': 'one symbolic argument, len <= 2, all Unicode except NUL, between two concrete neighbours',
              'cmd': 'one symbolic argument, len <= 3, first / middle / last position',
              'int lists': 'every subset of 0..9 (+ duplicates, reversed order), every complement window start 0..11 x end None,0..11'},
    'thorough': {'sh': 'len <= 3', 'cmd': 'len <= 4'},
}
ASSUMPTIONS = ['arguments are not in command position (a leading NAME= word is an argument, as for shlex.quote)',
               'MS C runtime rules as documented in the args2cmd docstring (2N / 2N+1 backslashes before a quote)',
               'the join of per-argument encodings is decided by one symbolic argument in each position']
OUT_OF_CLAIM = ['gzip_bytes/gunzip_bytes round-trip: deflate runs inside zlib (C); a symbolic payload is realised to one value at the call, '
                'nothing would be quantified - clause not decided by this technique', 'arguments longer than the bound', 'NUL characters',
                'integers above 11 in lists']
STUBS = []

SH_SAFE = 'abcdefghijklmnopqrstuvwxyzABCDEFGHIJKLMNOPQRSTUVWXYZ0123456789_@%+=:,./-'


def is_sh_safe(c):
    return ('a' <= c <= 'z') or ('A' <= c <= 'Z') or ('0' <= c <= '9') or c == '_' or c == '@' or c == '%' or c == '+' \
        or c == '=' or c == ':' or c == ',' or c == '.' or c == '/' or c == '-'


def sh_split(text):
    """POSIX shell word splitting (IEEE 1003.1 2.2/2.3) of a command's argument text.
    Returns the list of words, or None if any character would be expanded/interpreted."""
    words = []
    cur = ''
    have = False
    i = 0
    n = len(text)
    state = 0          # 0 unquoted, 1 single quotes, 2 double quotes
    while i < n:
        c = text[i]
        if state == 0:
            if c == ' ' or c == '\t' or c == '\n':
                if c == '\n':
                    return None           # an unquoted newline ends the command
                if have:
                    words.append(cur)
                    cur = ''
                    have = False
            elif c == "'":
                state = 1
                have = True
            elif c == '"':
                state = 2
                have = True
            elif c == '\\':
                if i + 1 >= n:
                    return None
                nxt = text[i + 1]
                if nxt != '\n':
                    cur += nxt
                    have = True
                i += 1
            elif is_sh_safe(c):
                cur += c
                have = True
            else:
                return None               # operator, expansion, glob, comment, tilde, ... unquoted
        elif state == 1:
            if c == "'":
                state = 0
            else:
                cur += c
        else:
            if c == '"':
                state = 0
            elif c == '$' or c == '`' or c == '\\' or c == '!':
                return None               # would be expanded / needs escape handling inside double quotes
            else:
                cur += c
        i += 1
    if state != 0:
        return None
    if have:
        words.append(cur)
    return words


def cmd_split(text):
    """MS C runtime argv splitting (rules 1-5 of 'Parsing C++ Command-Line Arguments')."""
    args = []
    cur = ''
    have = False
    inq = False
    i = 0
    n = len(text)
    while i < n:
        c = text[i]
        if c == '\\':
            j = i
            while j < n and text[j] == '\\':
                j += 1
            nbs = j - i
            if j < n and text[j] == '"':
                cur += '\\' * (nbs // 2)
                if nbs % 2 == 1:
                    cur += '"'
                else:
                    inq = not inq
                have = True
                i = j + 1
                continue
            cur += '\\' * nbs
            have = True
            i = j
            continue
        if c == '"':
            inq = not inq
            have = True
        elif (c == ' ' or c == '\t') and not inq:
            if have:
                args.append(cur)
                cur = ''
                have = False
        else:
            cur += c
            have = True
        i += 1
    if inq:
        return None
    if have:
        args.append(cur)
    return args


def _seq_eq(a, b):
    if a is None or len(a) != len(b):
        return False
    for x, y in zip(a, b):
        if x != y:
            return False
    return True


def sh_law(a: str, pos: int, style: int) -> bool:
    """
    pre: len(a) <= 3
    post: _
    """
    assume(pinval('lmin', 0) <= len(a) <= pinval('lmax', 2))
    for i in range(len(a)):
        assume(a[i] != '\x00')
    cls = pinval('first')
    if cls is not None and len(a):
        c = a[0]
        k = 0 if is_sh_safe(c) else (1 if (c == "'" or c == '"' or c == '\\' or c == ' ' or c == '$') else 2)
        assume(k == cls)
        sub = pinval('first_sub')
        if sub is not None:
            ks = 0 if (('a' <= c <= 'z') or ('A' <= c <= 'Z')) else (1 if ('0' <= c <= '9') else 2)
            assume(ks == sub)
    cls2 = pinval('second')
    if cls2 is not None and len(a) > 1:
        c = a[1]
        k = 0 if is_sh_safe(c) else (1 if (c == "'" or c == '"' or c == '\\' or c == ' ' or c == '$') else 2)
        assume(k == cls2)
    pos = pin('pos', pos, 0, 2)
    style = pin('style', style, 0, 1)
    args = [['x', "it's", a], [a, 'y z', ''], ['p', a, '-q=1']][pos]
    if style == 0:
        text = strutils.args2sh(args)
    else:
        text = strutils.escape_shell_args(args, style='sh')
    got = sh_split(text)
    if not _seq_eq(got, args):
        return fail('args2sh_roundtrip', 'args=%r text=%r split=%r' % (args, text, got))
    return done(len(a) > 0, kind='nonempty', pos=pos)


def cmd_law(a: str, pos: int, style: int) -> bool:
    """
    pre: len(a) <= 4
    post: _
    """
    assume(pinval('lmin', 0) <= len(a) <= pinval('lmax', 3))
    for i in range(len(a)):
        assume(a[i] != '\x00')
    pos = pin('pos', pos, 0, 2)
    style = cz(style, 0, 1)
    args = [['x', 'y z', a], [a, 'q"r', ''], ['p\\', a, 'end\\']][pos]
    if style == 0:
        text = strutils.args2cmd(args)
    else:
        text = strutils.escape_shell_args(args, style='cmd')
    got = cmd_split(text)
    if not _seq_eq(got, args):
        return fail('args2cmd_roundtrip', 'args=%r text=%r split=%r' % (args, text, got))
    return done(len(a) > 0, kind='nonempty', pos=pos)


# ------------------------------------------------------------------ integer lists
def canonical(ints):
    """maximal ranges of a sorted distinct list, as text"""
    out = []
    i = 0
    while i < len(ints):
        j = i
        while j + 1 < len(ints) and ints[j + 1] == ints[j] + 1:
            j += 1
        out.append('%d' % ints[i] if i == j else '%d-%d' % (ints[i], ints[j]))
        i = j + 1
    return ','.join(out)


def _int_body(ints, dup, rev):
    L = list(ints)
    if dup and L:
        L = L + [L[0], L[-1]]
    if rev:
        L = L[::-1]
    text = strutils.format_int_list(L)
    if text != canonical(ints):
        return fail('format_int_list_canonical', '%r -> %r expected %r' % (L, text, canonical(ints)))
    if strutils.parse_int_list(text) != ints:
        return fail('parse_format_roundtrip', '%r -> %r -> %r' % (L, text, strutils.parse_int_list(text)))
    sp = strutils.format_int_list(L, delim_space=True)
    if strutils.parse_int_list(sp) != ints or sp.replace(' ', '') != text:
        return fail('format_int_list_delim_space')
    alt = strutils.format_int_list(L, delim=';', range_delim=':')
    if strutils.parse_int_list(alt, delim=';', range_delim=':') != ints:
        return fail('custom_delims_roundtrip')
    exp_ranges = []
    for piece in canonical(ints).split(','):
        if piece:
            a, _, b = piece.partition('-')
            exp_ranges.append((int(a), int(b or a)))
    if strutils.int_ranges_from_int_list(text) != tuple(exp_ranges):
        return fail('int_ranges_from_int_list')
    # complement: every window (start, end) with 0 <= start <= 11, end in None, 0..11
    for start in range(0, 12):
        for we in range(-1, 12):
            if we < 0:
                got = strutils.complement_int_list(text, range_start=start)
                end = (max(ints) + 1) if ints else start
            else:
                end = we
                got = strutils.complement_int_list(text, range_start=start, range_end=end)
            exp = [x for x in range(start, end) if x not in ints]
            if got != canonical(exp) or strutils.parse_int_list(got) != exp:
                return fail('complement_int_list', 'ints=%r window=%r..%r got %r expected %r' % (ints, start, end, got, canonical(exp)))
    return done(True, kind='ranges' if '-' in text else 'singles', ints=ints)


def int_list_law(b0: bool, b1: bool, b2: bool, b3: bool, b4: bool, b5: bool, b6: bool, b7: bool, b8: bool, b9: bool, dup: bool) -> bool:
    """
    post: _
    """
    bits = [b0, b1, b2, b3, b4, b5, b6, b7, b8, b9]
    hi = pinval('hi')
    ints = []
    for i, b in enumerate(bits):
        if i >= 8:
            on = bool(hi & (1 << (i - 8)))
        else:
            on = True if b else False
        if on:
            ints.append(i)
    dup = True if dup else False
    with notrace():
        return _int_body(ints, dup, not dup)


def obligations(tier):
    obs = []
    q = tier == 'quick'
    T = 170 if q else 1500
    for pos in range(3):
        for style in (0, 1):
            obs.append(Ob('sh_law', timeout=T, pins={'pos': pos, 'style': style, 'lmin': 0, 'lmax': 1}))
        obs.append(Ob('cmd_law', timeout=T, pins={'pos': pos, 'lmin': 0, 'lmax': 3 if q else 4}))
    for first in range(3):
        for second in range(3):
            if first == 0 and second == 0:
                for sub in range(3):
                    obs.append(Ob('sh_law', timeout=T, pins={'pos': 2, 'style': 0, 'lmin': 2, 'lmax': 2, 'first': 0, 'second': 0, 'first_sub': sub}))
            else:
                obs.append(Ob('sh_law', timeout=T, pins={'pos': 2, 'style': 0, 'lmin': 2, 'lmax': 2, 'first': first, 'second': second}))
            if not q:
                for pos in (0, 1):
                    obs.append(Ob('sh_law', timeout=T, pins={'pos': pos, 'style': 0, 'lmin': 2, 'lmax': 2, 'first': first, 'second': second}))
                if first == 0 and second == 0:
                    for sub in (0, 1, 2):      # the all-safe cell is the largest: split by letter / digit / other safe first character
                        obs.append(Ob('sh_law', timeout=T, pins={'pos': 1, 'style': 0, 'lmin': 3, 'lmax': 3, 'first': 0, 'second': 0, 'first_sub': sub}))
                else:
                    obs.append(Ob('sh_law', timeout=T, pins={'pos': 1, 'style': 0, 'lmin': 3, 'lmax': 3, 'first': first, 'second': second}))
    for hi in range(4):
        obs.append(Ob('int_list_law', timeout=T, pins={'hi': hi}, need_kinds=('ranges',)))
    return obs

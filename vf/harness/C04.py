"""C04 atomic_save never exposes a partially written destination, at any crash point.

Engine E1 + the in-memory POSIX/durability model of vf/fakeos.py installed as the module
global `os` of boltons.fileutils.  Solver variables: the crash point (which file-system or
file-object call the process dies in), how much un-synced data is lost, the written byte
strings, the number of writes, the user-space buffer limit, and the configuration.
"""
import boltons.fileutils as fu
from vf import fakeos
from vf.fakeos import Crash, FakeFS, Inode
from vf.rt import cz, pin, pinval, assume, fail, done, notrace
from vf.check import Ob

PROPERTY = 'C04'
TARGETS = ['boltons.fileutils.AtomicSaver.__init__', 'boltons.fileutils.AtomicSaver.setup',
           'boltons.fileutils.AtomicSaver._open_part_file', 'boltons.fileutils.AtomicSaver.__enter__',
           'boltons.fileutils.AtomicSaver.__exit__', 'boltons.fileutils.atomic_save', 'boltons.fileutils.atomic_rename',
           'boltons.fileutils.replace']
BOUNDS = {
    'quick': {'crash_points': 'every ticked call 0..19 and "after the with-block"', 'writes': '0..3 of symbolic byte strings (len <= 2 each)',
              'lost_suffix': 'unbounded symbolic int', 'buffer_limit': '1..3 bytes (forces early partial write(2))', 'stale part file': 'absent, or a longer leftover taken over with overwrite_part=True',
              'config': 'binary/text, destination present/absent, overwrite True/False'},
    'thorough': {'writes': '0..4', 'extra': 'part_file= given; two savers on the same destination back to back'},
}
ASSUMPTIONS = ['directory operations (create, rename, link, unlink) are atomic, ordered and durable (fakeos model)',
               'file data survives a crash up to any length between the fsync-ed prefix and what write(2) delivered',
               'POSIX branch of atomic_rename/replace']
OUT_OF_CLAIM = ['the real kernel / file system', 'Windows ReplaceFile branch', 'power loss during fsync itself', 'fsync of the directory']
STUBS = ['boltons.fileutils.os -> vf.fakeos.FakeOS', 'boltons.fileutils.set_cloexec -> no-op counter']

DEST = '/d/f'
OLD = b'old!'


def survivors(ino, lost):
    surv = len(ino.kernel)
    if lost > 0:
        surv = surv - lost
        if surv < ino.durable:
            surv = ino.durable
    return ino.kernel[:surv]


def publication_ok(ino, new):
    """at publication (rename/link) all content was written, flushed, synced and the file closed"""
    log = ino.log
    pub = [i for i, e in enumerate(log) if e in ('rename', 'link')]
    if len(pub) != 1:
        return 'publication_count'
    p = pub[0]
    before = log[:p]
    if 'fsync' not in before or 'close' not in before or 'flush' not in before:
        return 'publication_before_flush_fsync_close'
    last_sync = max(i for i, e in enumerate(before) if e == 'fsync')
    if 'write(2)' in before[last_sync:] or 'write' in before[last_sync:]:
        return 'write_after_fsync'
    if 'write' in log[p:] or 'write(2)' in log[p:]:
        return 'write_after_publication'
    if ino.kernel != new or ino.durable != len(new):
        return 'published_content_not_durable'
    return None


def crash_law(crash_at: int, lost: int, nwrites: int, a: bytes, b: bytes, c: bytes, buflimit: int,
              dest_exists: bool, overwrite: bool) -> bool:
    """
    pre: lost >= 0 and len(a) <= 2 and len(b) <= 2 and len(c) <= 2
    post: _
    """
    text_mode = pinval('text', 0)
    nwrites = pin('nwrites', nwrites, 0, 4)
    crash_at = cz(crash_at, 0, 20)
    buflimit = cz(buflimit, 1, 2)
    dest_exists = True if dest_exists else False
    overwrite = True if overwrite else False
    assume(not (dest_exists and not overwrite))        # refusal is C05's business
    fs = FakeFS(crash_at=crash_at, buflimit=buflimit)
    if dest_exists:
        fs.names[DEST] = Inode(0o640, OLD)
    chunks = [a, b, c, a][:nwrites]
    if text_mode:
        chunks = [['\xe9', 'ab', '€\n', 'z'][i] for i in range(nwrites)]
        new = ''.join(chunks).encode('utf-8')
    else:
        new = b''
        for ch in chunks:
            new = new + ch
    kw = {}
    if pinval('part'):
        kw['part_file'] = 'tmp.part'
    part = '/d/tmp.part' if pinval('part') else DEST + '.part'
    if pinval('stale'):
        # leftover of an earlier, failed save (longer than anything written here), taken over with overwrite_part=True
        fs.names[part] = Inode(0o600, b'STALE-PART-FILE-CONTENT')
        kw['overwrite_part'] = True
    undo = fakeos.install(fu, fs)
    crashed = None
    try:
        try:
            with fu.atomic_save(DEST, text_mode=bool(text_mode), overwrite=overwrite, **kw) as f:
                for ch in chunks:
                    f.write(ch)
            fs.tick('after')
        except Crash as e:
            crashed = str(e)
    finally:
        undo()
    ino = fs.names.get(DEST)
    if crashed is None:
        assume(crash_at >= fs.step)            # no crash happened: one representative is enough
        assume(crash_at == fs.step)
        if ino is None or ino.kernel != new:
            return fail('normal_exit_content')
        if part in fs.names:
            return fail('normal_exit_part_left')
        cl = publication_ok(ino, new)
        if cl:
            return fail(cl)
        return done(True, kind='completed', nwrites=nwrites, text=text_mode)
    # the process died in call `crashed`: look at what a reboot would find
    if ino is None:
        if dest_exists:
            return fail('crash_destination_vanished', crashed)
        return done(True, kind='crash_before_publication', at=crashed)
    content = survivors(ino, lost)
    if content == new and (not dest_exists or ino is not None):
        if not dest_exists or content != OLD or True:
            # complete new content (also fine when it happens to equal the old one)
            if 'rename' in ino.log or 'link' in ino.log:
                cl = publication_ok(ino, new)
                if cl:
                    return fail(cl, crashed)
                return done(True, kind='crash_after_publication', at=crashed)
    if dest_exists and content == OLD and 'rename' not in ino.log and 'link' not in ino.log:
        return done(True, kind='crash_before_publication', at=crashed)
    return fail('crash_exposes_partial_destination', 'crash in %s: destination holds %r (old %r, new %r)' % (crashed, content, OLD, new))


def two_savers_law(crash_at: int, lost: int, a: bytes, b: bytes, buflimit: int) -> bool:
    """
    pre: lost >= 0 and 1 <= len(a) <= 2 and 1 <= len(b) <= 2
    post: _
    """
    crash_at = cz(crash_at, 0, 30)
    buflimit = cz(buflimit, 1, 2)
    fs = FakeFS(crash_at=crash_at, buflimit=buflimit)
    undo = fakeos.install(fu, fs)
    crashed = None
    stage = 0
    try:
        try:
            with fu.atomic_save(DEST) as f:
                f.write(a)
            stage = 1
            with fu.atomic_save(DEST) as f:
                f.write(b)
                f.write(a)
            stage = 2
            fs.tick('after')
        except Crash as e:
            crashed = str(e)
    finally:
        undo()
    ino = fs.names.get(DEST)
    if crashed is None:
        assume(crash_at == fs.step)
        if ino is None or ino.kernel != b + a or DEST + '.part' in fs.names:
            return fail('two_savers_final')
        return done(True, kind='completed')
    if ino is None:
        if stage >= 1:
            return fail('two_savers_destination_vanished')
        return done(True, kind='crash_first')
    content = survivors(ino, lost)
    if content == a or content == b + a:
        return done(True, kind='crash_second' if stage >= 1 else 'crash_first')
    return fail('crash_exposes_partial_destination', 'crash in %s: %r' % (crashed, content))


class FalsyError(Exception):
    """an exception whose instances are falsy (like an aggregate of errors with an empty list)"""
    def __bool__(self):
        return False


def exit_law(fault_at: int, a: bytes, b: bytes, rm_part: bool, dest_exists: bool, text_mode: bool, buflimit: int, body_raises: bool) -> bool:
    """
    pre: len(a) <= 2 and len(b) <= 2
    post: _
    """
    # "a with-block that exits normally always leaves the complete new content": also when an OS call failed on the way
    # (one injected failure at any tick) - if no exception reaches the caller, the content must be complete and durable
    fault_at = cz(fault_at, 0, 14)
    buflimit = cz(buflimit, 1, 2)
    rm_part = True if rm_part else False
    dest_exists = True if dest_exists else False
    text_mode = True if text_mode else False
    fs = FakeFS(fault_at=(fault_at,), buflimit=buflimit)
    FakeFS.NOFAULT = ('stat', 'lexists', 'unlink', 'fdopen', 'after')
    if dest_exists:
        fs.names[DEST] = Inode(0o640, OLD)
    chunks = ['\xe9', 'ab'] if text_mode else [a, b]
    new = ''.join(chunks).encode('utf-8') if text_mode else a + b
    body_raises = True if body_raises else False
    undo = fakeos.install(fu, fs)
    exc = None
    try:
        try:
            with fu.atomic_save(DEST, text_mode=text_mode, rm_part_on_exc=rm_part) as f:
                for i, ch in enumerate(chunks):
                    f.write(ch)
                    if body_raises and i == 0:
                        raise FalsyError('the body fails half way')
        except Exception as e:       # noqa - a reported failure is C05's business
            exc = e
    finally:
        undo()
        FakeFS.NOFAULT = ('stat', 'lexists')
    if body_raises:
        # the body failed after its first write: whatever else happens, the half-written data must not be published
        ino = fs.names.get(DEST)
        if exc is None:
            return fail('body_exception_swallowed')
        if (ino is None) != (not dest_exists) or (ino is not None and ino.kernel != OLD):
            return fail('failed_body_published_partial_content', 'destination holds %r' % (None if ino is None else ino.kernel,))
        return done(False, kind='raised')
    if exc is not None:
        return done(False, kind='raised')
    ino = fs.names.get(DEST)
    if ino is None or ino.kernel != new:
        return fail('normal_exit_content', 'after a failed %s the with-block exited normally; destination holds %r, new content %r' % (
            fs.faulted, None if ino is None else ino.kernel, new))
    if fs.faulted:
        cl = publication_ok(ino, new)
        if cl:
            return fail(cl, 'after a failed %s' % (fs.faulted,))
    return done(True, kind='completed')


def obligations(tier):
    obs = []
    q = tier == 'quick'
    T = 170 if q else 1500
    kinds = ('completed', 'crash_before_publication', 'crash_after_publication')
    for nw in range(0, 3 if q else 5):
        obs.append(Ob('crash_law', timeout=T, pins={'text': 0, 'nwrites': nw, 'part': nw % 2}, need_kinds=kinds))
    for nw in (1, 3):
        obs.append(Ob('crash_law', timeout=T, pins={'text': 1, 'nwrites': nw, 'part': 0}, need_kinds=kinds))
    for nw in (0, 2) if q else (0, 1, 2, 3):
        obs.append(Ob('crash_law', timeout=T, pins={'text': 0, 'nwrites': nw, 'part': 0, 'stale': 1}, need_kinds=kinds))
    obs.append(Ob('exit_law', timeout=T, need_kinds=('completed',)))
    obs.append(Ob('two_savers_law', timeout=T, need_kinds=('completed', 'crash_second')))
    return obs

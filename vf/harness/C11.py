"""C11 IndexedSet is at once an insertion-ordered list of unique items and a set.

Engine E1.  The solver chooses the structure: size, the positions of up to three
removals (tombstones / dead-index intervals), operation arguments, operand
contents and operand kinds; each choice is a solver-decided branch and the path
tree is exhausted.  After the pre-state and after the operation the complete
read battery - iteration, len, in, s[i] for every valid index incl. negatives,
EVERY slice s[i:j:k] with i, j in -n-2..n+2 or None and k in None,1,2,3, index,
count, reversed - is compared with a plain list; set operations are compared with
Python sets plus the ordering rule.
Two configurations: production constants with 16..20 items (the 1/8 compaction
rule needs >= 8 live items per dead slot) and setutils._COMPACTION_FACTOR lowered
to 2 so that multi-interval states occur with <= 7 items.
"""
import boltons.setutils as setutils
from boltons.setutils import IndexedSet
from vf.rt import K, cz, pin, pinval, assume, fail, done, notrace, labels
from vf.check import Ob

PROPERTY = 'C11'
_M = 'boltons.setutils.IndexedSet.'
TARGETS = [_M + m for m in (
    '__init__', '_compact', '_cull', '_get_real_index', '_get_apparent_index', '_add_dead', '__len__',
    '__contains__', '__iter__', '__reversed__', '__eq__', 'add', 'remove', 'discard', 'clear', 'isdisjoint',
    'issubset', 'issuperset', 'union', 'iter_intersection', 'intersection', 'iter_difference', 'difference',
    'symmetric_difference', '__rsub__', 'update', 'intersection_update', 'difference_update',
    'symmetric_difference_update', '__ior__', '__iand__', '__isub__', '__ixor__', 'iter_slice', '__getitem__',
    'pop', 'count', 'reverse', 'sort', 'index')]
BOUNDS = {
    'quick': {'items': '0..7 with _COMPACTION_FACTOR=2; 16..18 with production constants', 'removals_before_op': '0..3 at symbolic positions',
              'operations_after_pre_state': 1, 'slices_checked': 'all i,j in -n-2..n+2|None, k in None,1,2,3',
              'set_operands': '0..2 operands, each any subset of a 4-item universe (2 present, 2 absent), kinds set/frozenset/list/tuple/IndexedSet; list/tuple operands in either relative order and with repeated items (content twice, one item three times)'},
    'thorough': {'items': '0..8 (factor 2), 16..26 (production)', 'removals_before_op': '0..4', 'operations_after_pre_state': 2},
}
ASSUMPTIONS = ['items are hashable with consistent ==/hash', 'index and slice arguments valid for a list of the same length',
               'positive slice steps (statement)']
OUT_OF_CLAIM = ['more than 384 dead intervals (second compaction trigger)', 'negative slice steps', 'one-shot iterators as set operands',
                'sets larger than the bound']
STUBS = ['setutils._COMPACTION_FACTOR (module constant) set to 2 in the small-size configuration']


def battery(s, ref, slices=True):
    """all list-style reads of IndexedSet s against list ref; returns clause or None"""
    n = len(ref)
    if list(s) != ref:
        return 'iteration'
    if len(s) != n or bool(s) != bool(ref):
        return 'len'
    if list(reversed(s)) != list(reversed(ref)):
        return 'reversed'
    for i in range(-n, n):
        try:
            if s[i] != ref[i]:
                return 'getitem'
        except IndexError:
            return 'getitem_indexerror'
    for pos, x in enumerate(ref):
        if x not in s or s.count(x) != 1:
            return 'contains'
        try:
            if s.index(x) != pos:
                return 'index'
        except ValueError:
            return 'index_valueerror'
    for x in ('absent', 9999):
        if x in s or s.count(x) != 0:
            return 'contains_absent'
        try:
            s.index(x)
            return 'index_absent_no_valueerror'
        except ValueError:
            pass
    if not slices:
        rng = []
    elif n <= 8:
        rng = [None] + list(range(-n - 2, n + 3))
    else:       # representative bounds for the large (production-constant) configuration
        rng = [None] + sorted({-n - 1, -n, -n + 1, -3, -2, -1, 0, 1, 2, n // 2, n - 2, n - 1, n, n + 1})
    for i in rng:
        for j in rng:
            for k in (None, 1, 2, 3):
                got = s[i:j:k]
                if type(got) is not IndexedSet or list(got) != ref[i:j:k]:
                    return 'slice'
    if not (s == IndexedSet(ref)) or (n and s == IndexedSet(ref[1:] + ref[:1]) and n > 1):
        return 'eq_indexedset'
    if not (s == set(ref)):
        return 'eq_set'
    return None


def build(n, rem, via_pop, factor):
    """pre-state: n adds then removals at apparent positions rem (list), by remove(item) or pop(i)"""
    s = IndexedSet()
    ref = []
    for i in range(n):
        s.add(100 + i)
        ref.append(100 + i)
    for pos in rem:
        if via_pop:
            got = s.pop(pos)
            exp = ref.pop(pos)
            if got != exp:
                return None, None, 'pre_pop_return'
        else:
            x = ref.pop(pos)
            s.remove(x)
        cl = battery(s, ref, slices=False)
        if cl:
            return None, None, 'pre_' + cl
    return s, ref, None


LIST_OPS = ['add_new', 'add_existing', 'remove', 'discard_absent', 'remove_absent', 'pop_index', 'pop_last',
            'clear', 'sort', 'sort_reverse', 'reverse', 'update_one', 'ctor', 'pop_negative']


def _list_body(cfg, n, rem, via_pop, name, a, b):
    old = setutils._COMPACTION_FACTOR
    try:
        if cfg == 0:
            setutils._COMPACTION_FACTOR = 2
        s, ref, cl = build(n, rem, via_pop, cfg)
        if cl:
            return fail(cl, 'n=%d rem=%r' % (n, rem))
        tomb = bool(rem) and len(ref) > 0
        m = len(ref)
        if name == 'add_new':
            s.add(500)
            ref.append(500)
        elif name == 'add_existing':
            if m:
                s.add(ref[a % m])
        elif name == 'remove':
            if m:
                x = ref.pop(a % m)
                s.remove(x)
        elif name == 'discard_absent':
            s.discard(777)
            if m:
                x = ref.pop(a % m)
                s.discard(x)
        elif name == 'remove_absent':
            try:
                s.remove(777)
                return fail('remove_absent_no_keyerror')
            except KeyError:
                pass
        elif name == 'pop_index':
            if m:
                if s.pop(a % m) != ref.pop(a % m):
                    return fail('pop_return')
        elif name == 'pop_negative':
            if m:
                i = -1 - (a % m)
                if s.pop(i) != ref.pop(i):
                    return fail('pop_return')
        elif name == 'pop_last':
            try:
                got = s.pop()
                if not m or got != ref.pop():
                    return fail('pop_return')
            except (IndexError, KeyError):
                if m:
                    return fail('pop_nonempty_raised')
        elif name == 'clear':
            s.clear()
            ref = []
        elif name == 'sort':
            s.sort(key=lambda x: (x * 7) % 5)
            ref.sort(key=lambda x: (x * 7) % 5)
        elif name == 'sort_reverse':
            s.sort(reverse=True)
            ref.sort(reverse=True)
            # key with ties together with reverse=True: list.sort keeps tied items in their original order
            s.sort(key=lambda x: x % 2, reverse=True)
            ref.sort(key=lambda x: x % 2, reverse=True)
        elif name == 'reverse':
            s.reverse()
            ref.reverse()
        elif name == 'update_one':
            arg = [ref[a % m]] if m else []
            arg += [600, 601, 600]
            s.update(arg)
            ref += [600, 601]
        elif name == 'ctor':
            c = IndexedSet(list(ref) + list(ref[:2]))
            cl = battery(c, ref)
            if cl:
                return fail('ctor_' + cl)
            c2 = IndexedSet.from_iterable(iter(ref))
            if list(c2) != ref:
                return fail('from_iterable')
        cl = battery(s, ref)
        if cl:
            return fail(name + '_then_' + cl, 'n=%d rem=%r a=%d' % (n, rem, a))
        # one more mutation after the op: appends must stay readable (stale dead intervals show here)
        s.add(900)
        ref.append(900)
        s.add(901)
        ref.append(901)
        cl = battery(s, ref, slices=False)
        if cl:
            return fail(name + '_then_add_then_' + cl, 'n=%d rem=%r a=%d' % (n, rem, a))
        # ... and removals from both ends after the appends
        if s.pop(0) != ref.pop(0):
            return fail(name + '_then_pop0_return')
        if len(ref) >= 2:
            s.remove(ref.pop(-2))
        cl = battery(s, ref, slices=len(ref) <= 8)
        if cl:
            return fail(name + '_then_add_pop_then_' + cl, 'n=%d rem=%r a=%d' % (n, rem, a))
        return done(True, kind='tombstones' if tomb else 'dense', op=name, n=n, rem=rem, cfg=cfg)
    finally:
        setutils._COMPACTION_FACTOR = old


def iset_list(cfg: int, n: int, nrem: int, r0: int, r1: int, r2: int, r3: int, via_pop: int, op: int, a: int, b: int) -> bool:
    """
    pre: 0 <= n <= 30 and 0 <= nrem <= 4 and 0 <= via_pop <= 1
    post: _
    """
    cfg = pin('cfg', cfg, 0, 1)
    op = pin('op', op, 0, len(LIST_OPS) - 1)
    lo, hi = pinval('nmin', 0), pinval('nmax', 7)
    n = cz(n, lo, hi)
    nrem = cz(nrem, min(pinval('remmin', 0), n), min(pinval('remmax', 3), n))
    via_pop = pin('via_pop', via_pop, 0, 1)
    rem = []
    for idx, r in enumerate([r0, r1, r2, r3][:nrem]):
        m = n - idx
        if idx == 0 and pinval('r0') is not None:
            rem.append(pinval('r0'))
        elif m <= 8:
            rem.append(cz(r, 0, m - 1))
        else:   # large configuration: representative removal positions
            cand = sorted({0, 1, m // 2, m - 2, m - 1})
            rem.append(cand[cz(r, 0, len(cand) - 1)])
    left = n - nrem
    if LIST_OPS[op] in ('add_existing', 'remove', 'discard_absent', 'pop_index', 'pop_negative', 'update_one'):
        # representative argument positions: both ends, their neighbours and the middle
        cand = sorted({p for p in (0, 1, left // 2, left - 2, left - 1) if 0 <= p < left}) or [0]
        a = cand[cz(a, 0, len(cand) - 1)]
    else:
        a = 0
    if LIST_OPS[op] in ('remove_absent', 'ctor', 'clear'):
        assume(via_pop == 0)
    with notrace():
        return _list_body(cfg, n, rem, via_pop, LIST_OPS[op], a, 0)


# ------------------------------------------------------------------ set algebra
SET_OPS = ['union', 'intersection', 'difference', 'symmetric_difference', 'or', 'and', 'sub', 'xor', 'rsub', 'ror',
           'update', 'intersection_update', 'difference_update', 'symmetric_difference_update',
           'ior', 'iand', 'isub', 'ixor', 'issubset', 'issuperset', 'isdisjoint', 'eq']
KINDS = [set, frozenset, list, tuple, IndexedSet]


def ordered_union(ref, others):
    out = list(ref)
    for o in others:
        for x in o:
            if x not in out:
                out.append(x)
    return out


def _set_body(n, rem, name, nops, masks, kinds, rev=0, dup=0):
    s, ref, cl = build(n, rem, 0, 1)
    if cl:
        return fail(cl)
    # operand universe: two present items (first and last of the current content), two absent ones
    present = [ref[0], ref[-1]] if len(ref) >= 2 else list(ref)
    while len(present) < 2:
        present.append(810 + len(present))
    uni = present + [801, 802]
    ops_l = []      # operand contents in a definite order
    for mask in masks[:nops]:
        order = (3, 1, 2, 0) if rev else (0, 3, 1, 2)     # ordered operands list common items in either relative order
        l = [uni[i] for i in order if mask & (1 << i)]
        if dup == 1 and l:
            l = l + l                                     # sequence operands may repeat items: whole content twice ...
        elif dup == 2 and l:
            l = [l[0]] * 3 + l[1:]                        # ... or one item three times in a row
        ops_l.append(l)
    operands = [KINDS[kinds[i]](ops_l[i]) for i in range(nops)]
    ordered = [list(o) for o in operands]            # iteration order of each operand as passed
    before_ops = [list(o) for o in operands]
    S = set(ref)
    sets = [set(o) for o in ops_l]
    res = None
    exp_list = None
    inplace = False
    if name in ('union', 'or', 'ror'):
        if name == 'union':
            res = s.union(*operands)
        elif name == 'or':
            assume(nops == 1 and kinds[0] != 2 and kinds[0] != 3)
            res = s | operands[0]
        else:
            assume(nops == 1 and kinds[0] in (0, 1))
            res = operands[0] | s
        exp_list = ordered_union(ref, ordered)
    elif name in ('intersection', 'and'):
        if name == 'and':
            assume(nops == 1 and kinds[0] in (0, 1, 4))
            res = s & operands[0]
        else:
            res = s.intersection(*operands)
        exp_list = [x for x in ref if all(x in o for o in sets)]
    elif name in ('difference', 'sub'):
        if name == 'sub':
            assume(nops == 1 and kinds[0] in (0, 1, 4))
            res = s - operands[0]
        else:
            res = s.difference(*operands)
        exp_list = [x for x in ref if not any(x in o for o in sets)]
    elif name in ('symmetric_difference', 'xor'):
        assume(nops == 1)
        if name == 'xor':
            assume(kinds[0] in (0, 1, 4))
            res = s ^ operands[0]
        else:
            res = s.symmetric_difference(operands[0])
        exp_list = [x for x in ordered_union(ref, ordered) if (x in S) != (x in sets[0])]
    elif name == 'rsub':
        assume(nops == 1 and kinds[0] in (0, 1))
        res = operands[0] - s
        if set(res) != sets[0] - S or type(res) is not KINDS[kinds[0]]:
            return fail('rsub')
        exp_list = None
    elif name in ('update', 'ior'):
        if name == 'ior':
            assume(nops == 1 and kinds[0] in (0, 1, 4))
            s0 = s
            s |= operands[0]
            if s is not s0:
                return fail('ior_identity')
        else:
            s.update(*operands)
        ref = ordered_union(ref, ordered)
        inplace = True
    elif name in ('intersection_update', 'iand'):
        if name == 'iand':
            assume(nops == 1 and kinds[0] in (0, 1, 4))
            s &= operands[0]
        else:
            s.intersection_update(*operands)
        ref = [x for x in ref if all(x in o for o in sets)]
        inplace = True
    elif name in ('difference_update', 'isub'):
        if name == 'isub':
            assume(nops == 1 and kinds[0] in (0, 1, 4))
            s -= operands[0]
        else:
            s.difference_update(*operands)
        ref = [x for x in ref if not any(x in o for o in sets)]
        inplace = True
    elif name in ('symmetric_difference_update', 'ixor'):
        assume(nops == 1)
        if name == 'ixor':
            assume(kinds[0] in (0, 1, 4))
            s ^= operands[0]
        else:
            s.symmetric_difference_update(operands[0])
        ref = [x for x in ordered_union(ref, ordered) if (x in S) != (x in sets[0])]
        inplace = True
    elif name in ('issubset', 'issuperset', 'isdisjoint'):
        assume(nops == 1)
        o = operands[0]
        if name == 'issubset':
            if s.issubset(o) != S.issubset(sets[0]):
                return fail('issubset')
            if kinds[0] in (0, 1, 4) and (s <= o) != (S <= sets[0]):
                return fail('le')
        elif name == 'issuperset':
            if s.issuperset(o) != S.issuperset(sets[0]):
                return fail('issuperset')
            if kinds[0] in (0, 1, 4) and (s >= o) != (S >= sets[0]):
                return fail('ge')
        else:
            if s.isdisjoint(o) != S.isdisjoint(sets[0]):
                return fail('isdisjoint')
    elif name == 'eq':
        assume(nops == 1)
        o = operands[0]
        if kinds[0] in (0, 1):
            if (s == o) != (S == sets[0]) or (s != o) == (S == sets[0]):
                return fail('eq_set')
        elif kinds[0] == 4:
            if (s == o) != (ref == list(o)):
                return fail('eq_indexedset')
    if exp_list is not None:
        if type(res) is not IndexedSet:
            return fail(name + '_result_type')
        if list(res) != exp_list:
            return fail(name + '_result', 'got %r expected %r' % (list(res), exp_list))
        cl = battery(res, exp_list)
        if cl:
            return fail(name + '_result_' + cl)
    if not inplace and list(s) != ref:
        return fail(name + '_mutated_self')
    for o, b in zip(operands, before_ops):
        if o is not s and list(o) != b:
            return fail(name + '_mutated_operand')
    cl = battery(s, ref)
    if cl:
        return fail(name + '_then_' + cl, 'ops=%r' % (ops_l,))
    return done(True, kind='two_operands' if nops == 2 else 'operands_%d' % nops, op=name, n=n, nops=nops)


def iset_set(n: int, nrem: int, r0: int, op: int, nops: int, m0: int, m1: int, k0: int, k1: int, rev: int, dup: int) -> bool:
    """
    pre: 0 <= n <= 5 and 0 <= nrem <= 1 and 0 <= nops <= 2 and 0 <= m0 <= 15 and 0 <= m1 <= 15 and 0 <= k0 <= 4 and 0 <= k1 <= 4
    post: _
    """
    op = pin('op', op, 0, len(SET_OPS) - 1)
    n = cz(n, pinval('nmin', 0), pinval('nmax', 4))
    nrem = cz(nrem, 0, min(1, n))
    rem = [cz(r0, 0, n - 1)] if nrem else []
    nops = cz(nops, pinval('opsmin', 0), pinval('opsmax', 2))
    masks = []
    if nops >= 1:
        masks.append(cz(m0, 0, 15 if nops < 2 else 7))
    if nops >= 2:
        masks.append(cz(m1, 0, 7) * 2)
    k0 = pin('k0', k0, 0, 4)
    kinds = [k0, (k0 + 2) % 5]
    rev = cz(rev, 0, 1) if (k0 >= 2 and nops >= 1 and bin(masks[0]).count('1') >= 2) else 0
    dup = pin('dup', dup, 0, 2) if (k0 in (2, 3) and nops >= 1) else 0      # list/tuple operands: no repeats / content twice / first item three times
    with notrace():
        old = setutils._COMPACTION_FACTOR
        try:
            setutils._COMPACTION_FACTOR = 2
            return _set_body(n, rem, SET_OPS[op], nops, masks, kinds, rev, dup)
        finally:
            setutils._COMPACTION_FACTOR = old


def obligations(tier):
    obs = []
    q = tier == 'quick'
    T = 170 if q else 1500
    for op in range(len(LIST_OPS)):
        obs.append(Ob('iset_list', timeout=T if q else 2700, pins={'cfg': 0, 'op': op, 'nmin': 0, 'nmax': 5 if q else 8, 'remmax': 3 if q else 4},
                      need_kinds=('tombstones',)))
    # deep tombstone layouts (several dead intervals incl. adjacent and trailing ones): 8 items, 4 removals
    for r0 in range(8):
        obs.append(Ob('iset_list', timeout=T, pins={'cfg': 0, 'op': 0, 'nmin': 8, 'nmax': 8, 'remmin': 4, 'remmax': 4, 'r0': r0, 'via_pop': r0 % 2},
                      need_kinds=('tombstones',)))
    # production constants: the 1/8 rule keeps tombstones only from 9 items per dead slot on
    for op in (0, 2, 5, 13) if q else range(len(LIST_OPS)):
        obs.append(Ob('iset_list', timeout=T, pins={'cfg': 1, 'op': op, 'nmin': 17 if q else 16, 'nmax': 17 if q else 26, 'remmax': 2 if q else 3, 'via_pop': 0},
                      need_kinds=('tombstones',)))
    multi = ('union', 'intersection', 'difference', 'update', 'intersection_update', 'difference_update')
    opk = {'or': (0, 1, 4), 'ror': (0, 1), 'and': (0, 1, 4), 'sub': (0, 1, 4), 'xor': (0, 1, 4), 'rsub': (0, 1),
           'ior': (0, 1, 4), 'iand': (0, 1, 4), 'isub': (0, 1, 4), 'ixor': (0, 1, 4)}
    for op, name in enumerate(SET_OPS):
        for k0 in opk.get(name, range(5)):
            if name in multi:
                for dup in ((0, 1, 2) if k0 in (2, 3) else (None,)):
                    pins = {'op': op, 'k0': k0, 'nmin': 2, 'nmax': 3 if q else 5, 'opsmin': 0, 'opsmax': 2}
                    if dup is not None:
                        pins['dup'] = dup
                        if dup:
                            pins['opsmin'] = 1
                            pins['nmax'] = 2 if q else 3
                    obs.append(Ob('iset_set', timeout=T, pins=pins, need_kinds=('two_operands',)))
            else:
                obs.append(Ob('iset_set', timeout=T, pins={'op': op, 'k0': k0, 'nmin': 0, 'nmax': 3 if q else 5, 'opsmin': 1, 'opsmax': 1}))
    return obs

"""C07 URL.navigate implements RFC 3986 reference resolution with a normalized result.

Engine E1.  The relative reference is solver-chosen: leading slash, up to 3 (quick) / 4
(thorough) segments each from the classes {'.', '..', '', name, other name}, optional
query and fragment, passed as text or as a URL object; for each reference the real
navigate() runs against every base shape (0..2 path segments, trailing slash, query,
fragment, userinfo, port).  A second obligation makes one segment a SYMBOLIC string over
[a-z.] so that its equality with '.'/'..' is decided by the solver through the real parser.
Oracle: RFC 3986 section 5.2.2 transform + 5.2.4 remove_dot_segments + 5.3 recomposition,
written from the RFC text over strings (independent of resolve_path_parts).
"""
from boltons.urlutils import URL
from vf.rt import cz, pin, pinval, assume, fail, done, notrace
from vf.check import Ob

PROPERTY = 'C07'
TARGETS = ['boltons.urlutils.URL.navigate', 'boltons.urlutils.resolve_path_parts', 'boltons.urlutils.URL.normalize',
           'boltons.urlutils.URL.from_parts', 'boltons.urlutils.URL.to_text', 'boltons.urlutils.URL.__init__',
           'boltons.urlutils.parse_url']
BOUNDS = {
    'quick': {'reference': 'optional leading /, 0..3 segments from {., .., empty, x, y}, optional ?query, optional #fragment; text and URL object',
              'base': 'scheme://[user:pw@]host[:port] + 0..2 segments + optional trailing slash, query, fragment (every combination)',
              'chained': 'two references', 'symbolic_segment': 'one segment as symbolic string over [a-z.] of length 1..2'},
    'thorough': {'reference': '0..4 segments'},
}
ASSUMPTIONS = ['an empty path under an authority is identified with "/" (statement)', 'references without an authority part (statement)',
               'queries and fragments, when present, are non-empty (boltons cannot represent defined-but-empty components)',
               'base URLs carry no dot segments']
OUT_OF_CLAIM = ['longer segment sequences', 'references with an authority but no scheme', 'non-ASCII / percent-encoded segments',
                'defined-but-empty query or fragment ("?" / "#" alone)']
STUBS = []


# ---------------------------------------------------------------- RFC 3986 section 5.2 (strings)
def remove_dot_segments(path):
    out = []
    inp = path
    while inp:
        if inp.startswith('../'):
            inp = inp[3:]
        elif inp.startswith('./'):
            inp = inp[2:]
        elif inp.startswith('/./'):
            inp = inp[2:]
        elif inp == '/.':
            inp = '/'
        elif inp.startswith('/../'):
            inp = inp[3:]
            if out:
                out.pop()
        elif inp == '/..':
            inp = '/'
            if out:
                out.pop()
        elif inp in ('.', '..'):
            inp = ''
        else:
            start = 1 if inp.startswith('/') else 0
            nxt = inp.find('/', start)
            if nxt < 0:
                seg, inp = inp, ''
            else:
                seg, inp = inp[:nxt], inp[nxt:]
            out.append(seg)
    return ''.join(out)


def rfc_resolve(base, ref):
    """base, ref: dicts scheme, authority (None if undefined), path, query (None), fragment (None); returns text"""
    t = {}
    if ref['scheme'] is not None:
        t = dict(ref)
        t['path'] = remove_dot_segments(ref['path'])
    else:
        if ref['authority'] is not None:
            t['authority'] = ref['authority']
            t['path'] = remove_dot_segments(ref['path'])
            t['query'] = ref['query']
        else:
            if ref['path'] == '':
                t['path'] = base['path']
                t['query'] = ref['query'] if ref['query'] is not None else base['query']
            else:
                if ref['path'].startswith('/'):
                    t['path'] = remove_dot_segments(ref['path'])
                else:
                    if base['authority'] is not None and base['path'] == '':
                        merged = '/' + ref['path']
                    else:
                        merged = base['path'][:base['path'].rfind('/') + 1] + ref['path']
                    t['path'] = remove_dot_segments(merged)
                t['query'] = ref['query']
            t['authority'] = base['authority']
        t['scheme'] = base['scheme']
    t['fragment'] = ref['fragment']
    if t.get('authority') is not None and t['path'] == '':
        t['path'] = '/'                      # identification made by the statement
    out = t['scheme'] + ':'
    if t.get('authority') is not None:
        out += '//' + t['authority']
    out += t['path']
    if t.get('query') is not None:
        out += '?' + t['query']
    if t.get('fragment') is not None:
        out += '#' + t['fragment']
    return out, t


def norm_text(text):
    """apply the '' == '/' identification to a rendered absolute URL with an authority"""
    scheme, _, rest = text.partition('://')
    cut = len(rest)
    for ch in '/?#':
        i = rest.find(ch)
        if 0 <= i < cut:
            cut = i
    auth, tail = rest[:cut], rest[cut:]
    if not tail.startswith('/'):
        tail = '/' + tail
    return scheme + '://' + auth + tail


SEGS = ['.', '..', '', 'x', 'y']


def bases():
    out = []
    for auth in ('h.com', 'u:pw@h.com:8080'):
        for segs in ([], ['a'], ['a', 'b'], ['', 'b']):
            for trail in (0, 1):
                for q in (None, 'bq=1'):
                    for f in (None, 'bf'):
                        if not segs and trail:
                            path = '/'
                        elif not segs:
                            path = ''
                        else:
                            path = '/' + '/'.join(segs) + ('/' if trail else '')
                        text = 'http://' + auth + path + ('?' + q if q else '') + ('#' + f if f else '')
                        out.append((text, {'scheme': 'http', 'authority': auth, 'path': path, 'query': q, 'fragment': f}))
    return out


BASES = bases()


def check_one(base_text, base_d, ref_text, ref_d, as_url):
    base = URL(base_text)
    before = base.to_text()
    exp, t = rfc_resolve(base_d, ref_d)
    got_url = base.navigate(URL(ref_text) if as_url else ref_text)
    got = got_url.to_text()
    if norm_text(got) != exp:
        return 'navigate_vs_rfc', 'base=%r ref=%r: got %r expected %r' % (base_text, ref_text, got, exp)
    if base.to_text() != before or base.to_text() != base_text.replace('', ''):
        return 'navigate_mutated_base', 'base=%r ref=%r' % (base_text, ref_text)
    for p in got_url.path_parts:
        if p in ('.', '..'):
            return 'dot_segment_in_result', 'base=%r ref=%r: %r' % (base_text, ref_text, got)
    if not norm_text(got).startswith('http://' + base_d['authority'] + '/'):
        return 'climbed_above_root', got
    n1 = URL(got)
    n1.normalize()
    t1 = n1.to_text()
    n1.normalize()
    if n1.to_text() != t1 or norm_text(t1) != norm_text(got):
        return 'normalize_not_idempotent', got
    return None


def _ref_of(lead, classes, q, f):
    path = ('/' if lead else '') + '/'.join(SEGS[c] for c in classes)
    if lead and not classes:
        path = '/'
    text = path + ('?rq=2' if q else '') + ('#rf' if f else '')
    return text, {'scheme': None, 'authority': None, 'path': path, 'query': 'rq=2' if q else None, 'fragment': 'rf' if f else None}


def _nav_body(lead, classes, q, f, as_url, lead2, classes2):
    ref_text, ref_d = _ref_of(lead, classes, q, f)
    if ref_text.startswith('//'):
        return done(False)              # would be a network-path reference (has an authority): outside the statement
    for base_text, base_d in BASES:
        r = check_one(base_text, base_d, ref_text, ref_d, as_url)
        if r:
            return fail(r[0], r[1])
    if classes2 is not None:
        ref2_text, ref2_d = _ref_of(lead2, classes2, 0, 1)
        if not ref2_text.startswith('//'):
            for base_text, base_d in BASES[::5]:
                step1 = URL(base_text).navigate(ref_text)
                both = step1.navigate(ref2_text).to_text()
                e1, t1 = rfc_resolve(base_d, ref_d)
                e2, t2 = rfc_resolve(t1, ref2_d)
                if norm_text(both) != e2:
                    return fail('chained_navigation', 'base=%r refs=%r,%r: got %r expected %r' % (base_text, ref_text, ref2_text, both, e2))
    # a reference with its own scheme and host replaces everything
    absref = 'https://other.org' + ('/' + ref_d['path'].lstrip('/') if ref_d['path'] else '') + ('?rq=2' if q else '')
    for base_text, base_d in BASES[::7]:
        got = URL(base_text).navigate(absref).to_text()
        e, _t = rfc_resolve(base_d, {'scheme': 'https', 'authority': 'other.org', 'path': '/' + ref_d['path'].lstrip('/') if ref_d['path'] else '',
                                     'query': 'rq=2' if q else None, 'fragment': None})
        if norm_text(got) != e.replace('https:', 'https:', 1):
            return fail('absolute_reference_replaces_base', 'base=%r ref=%r: got %r expected %r' % (base_text, absref, got, e))
    return done(True, kind='dots' if any(c in (0, 1) for c in classes) else 'plain', ref=ref_text)


def navigate_law(lead: int, r: int, c0: int, c1: int, c2: int, c3: int, q: int, f: int, as_url: int,
                 lead2: int, r2: int, d0: int, d1: int) -> bool:
    """
    pre: 0 <= r <= 4 and 0 <= r2 <= 2
    post: _
    """
    lead = cz(lead, 0, 1)
    r = cz(r, pinval('rmin', 0), pinval('rmax', 3))
    classes = [cz(c, 0, 4) for c in [c0, c1, c2, c3][:r]]
    q = cz(q, 0, 1)
    f = cz(f, 0, 1)
    as_url = pin('as_url', as_url, 0, 1)
    classes2 = None
    if pinval('chain', 0):
        lead2 = pin('lead2', lead2, 0, 1)
        r2 = cz(r2, 0, 2)
        classes2 = [cz(c, 0, 3) for c in [d0, d1][:r2]]
    with notrace():
        return _nav_body(lead, classes, q, f, as_url, lead2, classes2)


def symbolic_segment_law(s: str, pos: int, lead: int) -> bool:
    """
    pre: 1 <= len(s) <= 2
    post: _
    """
    for i in range(len(s)):
        c = s[i]
        assume(c == 'a' or c == '.')
    pos = pin('pos', pos, 0, 2)
    lead = pin('lead', lead, 0, 1)
    segs = [['x', s], [s, 'y'], ['x', s, '..', 'y']][pos]
    path = ('/' if lead else '') + '/'.join(segs)
    ref_d = {'scheme': None, 'authority': None, 'path': path, 'query': None, 'fragment': None}
    for base_text, base_d in (BASES[pinval('base', 0)],):
        exp, t = rfc_resolve(base_d, ref_d)
        got = URL(base_text).navigate(path).to_text()
        if norm_text(got) != exp:
            return fail('navigate_vs_rfc_symbolic_segment', 'base=%r ref=%r: got %r expected %r' % (base_text, path, got, exp))
    isdot = (s == '.' or s == '..')
    return done(True, kind='dot' if isdot else 'name')


def obligations(tier):
    obs = []
    q = tier == 'quick'
    T = 170 if q else 1500
    for as_url in (0, 1):
        obs.append(Ob('navigate_law', timeout=T, pins={'as_url': as_url, 'rmin': 0, 'rmax': 2, 'chain': 0}, need_kinds=('dots', 'plain')))
        obs.append(Ob('navigate_law', timeout=T, pins={'as_url': as_url, 'rmin': 3, 'rmax': 3, 'chain': 0}, need_kinds=('dots',)))
        if not q:
            obs.append(Ob('navigate_law', timeout=T, pins={'as_url': as_url, 'rmin': 4, 'rmax': 4, 'chain': 0}, need_kinds=('dots',)))
    for lead2 in (0, 1):
        obs.append(Ob('navigate_law', timeout=T, pins={'as_url': 0, 'rmin': 0, 'rmax': 1 if q else 2, 'chain': 1, 'lead2': lead2}, need_kinds=('dots',)))
    for pos in range(3):
        for lead in (0, 1):
            obs.append(Ob('symbolic_segment_law', timeout=T, pins={'pos': pos, 'lead': lead, 'base': (0, 20, 9)[pos]}, need_kinds=('dot', 'name')))
    return obs

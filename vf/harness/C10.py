"""C10 priority queues pop highest priority first, FIFO among equals; two implementations identical.

Engine E1.  Priorities are symbolic ints (or None): every ordering decision inside
heapq / bisect.insort / BarrelList is a solver-decided branch.  Both queue classes
run the same script side by side and against a sorted-list model.  The
SortedPriorityQueue backend is forced into several sub-lists at small size by the
instance attribute `_size_factor = 1` (real split code) and, separately, by
re-partitioning the flat content at symbolic cut points (empty sub-lists included).
"""
from boltons.queueutils import HeapPriorityQueue, SortedPriorityQueue
from boltons.listutils import BarrelList
from vf.rt import internal, K, cz, pin, pinval, assume, fail, done, notrace, labels, order_labels
from vf.check import Ob

PROPERTY = 'C10'
TARGETS = ['boltons.queueutils.BasePriorityQueue.add', 'boltons.queueutils.BasePriorityQueue.remove',
           'boltons.queueutils.BasePriorityQueue._cull', 'boltons.queueutils.BasePriorityQueue.peek',
           'boltons.queueutils.BasePriorityQueue.pop', 'boltons.queueutils.BasePriorityQueue.__len__',
           'boltons.queueutils.HeapPriorityQueue._pop_entry', 'boltons.queueutils.HeapPriorityQueue._push_entry',
           'boltons.queueutils.SortedPriorityQueue._pop_entry', 'boltons.queueutils.SortedPriorityQueue._push_entry',
           'boltons.listutils.BarrelList._translate_index', 'boltons.listutils.BarrelList._balance_list',
           'boltons.listutils.BarrelList.insert', 'boltons.listutils.BarrelList.pop',
           'boltons.listutils.BarrelList.__getitem__', 'boltons.listutils.BarrelList.__len__',
           'boltons.listutils.BarrelList._cur_size_limit', 'boltons.listutils.BarrelList.__delitem__',
           'boltons.listutils.BarrelList.index', 'boltons.listutils.BarrelList.__iter__']
BOUNDS = {
    'quick': {'pre_state_adds': '0..4 distinct tasks', 'operations_after_pre_state': 2, 'priorities': 'symbolic ints in [-1000, 1000] or None',
              'removal_histories': '5 adds with distinct symbolic priorities, any subset removed, optional re-add, drain',
              'sub_list_layouts': '_size_factor=1 splits, or 2 symbolic cut points over the flat content'},
    'thorough': {'pre_state_adds': '0..5', 'operations_after_pre_state': 3},
}
ASSUMPTIONS = ['priorities are ints (|p| <= 1000) or None: exactly representable as floats', 'tasks interact only through ==/hash', 'pop/peek defaults: a foreign object, or the very task at the head of the queue (odd queue sizes)',
               'default priority_key']
OUT_OF_CLAIM = ['NaN / float priorities', 'custom priority_key', 'more entries than the bound symbolically',
                'production _size_factor sub-list layouts beyond those reached with _size_factor=1 / explicit cuts '
                '(reached only by the concrete scale-up replay)']
STUBS = ['BarrelList._size_factor set to 1 on the instance (documented tuning constant) so that the real split code runs at small sizes']

OPS = ['add_new', 'readd', 'remove', 'pop', 'peek', 'pop_default', 'peek_default', 'remove_absent']


class Model:
    def __init__(self):
        self.live = []      # (eff, stamp, task)
        self.stamp = 0

    def add(self, task, p):
        eff = 0 if p is None else -p
        self.live = [e for e in self.live if e[2] != task]
        self.live.append((eff, self.stamp, task))
        self.stamp += 1

    def remove(self, task):
        self.live = [e for e in self.live if e[2] != task]

    def has(self, task):
        return any(e[2] == task for e in self.live)

    def best(self):
        b = None
        for e in self.live:
            if b is None or e[0] < b[0] or (e[0] == b[0] and e[1] < b[1]):
                b = e
        return b


def step(qs, M, name, t, p):
    """apply one op to both queues and the model; returns clause or None"""
    if name in ('add_new', 'readd'):
        if name == 'readd':
            # first a re-add with a priority the priority key rejects: it raises and must leave the queue exactly as it was
            for q in qs:
                try:
                    q.add(t, 'not a number')
                    return 'add_bad_priority_accepted'
                except (TypeError, ValueError):
                    pass
                if len(q) != len(M.live):
                    return 'failed_add_changed_the_queue'
        for q in qs:
            q.add(t, p)
        M.add(t, p)
    elif name in ('remove', 'remove_absent'):
        present = M.has(t)
        for q in qs:
            try:
                q.remove(t)
                if not present:
                    return 'remove_absent_no_keyerror'
            except KeyError:
                if present:
                    return 'remove_keyerror'
        M.remove(t)
    elif name in ('pop', 'pop_default', 'peek', 'peek_default'):
        b = M.best()
        # the caller's default may be the very object that is at the head of the queue (odd sizes), or a foreign one
        dflt = b[2] if (b is not None and len(M.live) % 2 == 1) else 'dflt'
        for q in qs:
            try:
                if name == 'pop':
                    r = q.pop()
                elif name == 'peek':
                    r = q.peek()
                elif name == 'pop_default':
                    r = q.pop(default=dflt)
                else:
                    r = q.peek(default=dflt)
            except IndexError:
                if b is not None or name.endswith('default'):
                    return name + '_indexerror'
                continue
            if b is None:
                if not name.endswith('default') or r != 'dflt':
                    return name + '_empty'
            elif r != b[2]:
                return name + '_wrong_task'
        if b is not None and name.startswith('pop'):
            M.remove(b[2])
    for q in qs:
        if len(q) != len(M.live):
            return 'len'
    return None


def drain(qs, M):
    while M.live:
        b = M.best()
        for q in qs:
            try:
                r = q.pop()
            except IndexError:
                return 'drain_indexerror'
            if r != b[2]:
                return 'drain_order'
        M.remove(b[2])
        for q in qs:
            if len(q) != len(M.live):
                return 'drain_len'
    for q in qs:
        try:
            q.pop()
            return 'drain_not_empty'
        except IndexError:
            pass
        if q.pop(default=5) != 5 or q.peek(default=6) != 6:
            return 'drain_default'
    return None


def pq_script(n: int, p0: int, p1: int, p2: int, p3: int, p4: int, none0: int, layout: int, c1: int, c2: int,
              op1: int, t1: int, q1: int, op2: int, t2: int, q2: int, op3: int, t3: int, q3: int) -> bool:
    """
    pre: 0 <= n <= 5 and -1000 <= p0 <= 1000 and -1000 <= p1 <= 1000 and -1000 <= p2 <= 1000 and -1000 <= p3 <= 1000 and -1000 <= p4 <= 1000 and -1000 <= q1 <= 1000 and -1000 <= q2 <= 1000 and -1000 <= q3 <= 1000 and 0 <= none0 <= 1
    post: _
    """
    n = cz(n, 0, pinval('nmax', 4))
    nops = pinval('nops', 2)
    layout = pin('layout', layout, 0, 1)
    none0 = cz(none0, 0, 1)
    assume(not none0 or n <= pinval('none_nmax', 2))
    script = []
    for idx, (op, t, q) in enumerate([(op1, t1, q1), (op2, t2, q2), (op3, t3, q3)][:nops]):
        op = pin('op%d' % (idx + 1), op, 0, len(OPS) - 1)
        name = OPS[op]
        if name == 'add_new':
            t = 10 + idx
        elif name in ('readd', 'remove'):
            assume(n > 0)
            t = cz(t, 0, n - 1)
        elif name == 'remove_absent':
            t = 99
        else:
            t = None
        script.append((name, t, q))
    if layout == 1:
        c1 = cz(c1, 0, n)
        c2 = cz(c2, c1, n)
    # the order pattern of all priorities that will be used is decided by the solver here
    used = [p0, p1, p2, p3, p4][:n] + [q for name, t, q in script if name in ('add_new', 'readd')]
    ranks = order_labels(used, zero=bool(none0 and n))
    with notrace():
        return _script_body(n, none0, layout, c1, c2, script, ranks)


def _script_body(n, none0, layout, c1, c2, script, ranks):
    ps = list(ranks[:n])
    extra = list(ranks[n:])
    if none0 and n:
        ps[0] = None
    hq, sq = HeapPriorityQueue(), SortedPriorityQueue()
    if layout == 0 and isinstance(internal(sq, '_pq'), BarrelList):
        internal(internal(sq, '_pq'), '_size_factor'); sq._pq._size_factor = 1
    M = Model()
    qs = [hq, sq]
    for i in range(n):
        cl = step(qs, M, 'add_new', i, ps[i])
        if cl:
            return fail('pre_' + cl)
    if layout == 1 and isinstance(internal(sq, '_pq'), BarrelList):
        flat = list(sq._pq)
        internal(sq._pq, 'lists')[:] = [flat[:c1], flat[c1:c2], flat[c2:]]
    multi = isinstance(internal(sq, '_pq'), BarrelList) and len(sq._pq.lists) > 1
    names = []
    for name, t, q in script:
        if name in ('add_new', 'readd'):
            q = extra.pop(0)
        names.append(name)
        cl = step(qs, M, name, t, q)
        if cl:
            return fail(cl, 'after %s' % names)
    cl = drain(qs, M)
    if cl:
        return fail(cl, 'after %s' % names)
    return done(True, kind='multi' if multi else 'single', n=n, ops=names, layout=layout)


# ---- removal-heavy histories: n adds with pairwise distinct symbolic priorities, then any subset removed
def _removals_body(n, ranks, mask, readd):
    hq, sq = HeapPriorityQueue(), SortedPriorityQueue()
    internal(internal(sq, '_pq'), '_size_factor'); sq._pq._size_factor = 1
    M = Model()
    qs = [hq, sq]
    for i in range(n):
        cl = step(qs, M, 'add_new', i, ranks[i])
        if cl:
            return fail('pre_' + cl)
    removed = [i for i in range(n) if mask & (1 << i)]
    for t in removed:
        cl = step(qs, M, 'remove', t, None)
        if cl:
            return fail(cl, 'removing %r' % removed)
        cl = step(qs, M, 'peek_default', None, None)
        if cl:
            return fail(cl, 'after removing %r' % removed)
    if readd and removed:
        cl = step(qs, M, 'readd', removed[0], ranks[n - 1])
        if cl:
            return fail(cl)
    cl = drain(qs, M)
    if cl:
        return fail(cl, 'after removing %r of %d (priority ranks %r)' % (removed, n, ranks))
    return done(True, kind='many_removed' if len(removed) >= 3 else 'few_removed', n=n, removed=removed)


def pq_removals(n: int, p0: int, p1: int, p2: int, p3: int, p4: int, p5: int, mask: int, readd: int) -> bool:
    """
    pre: 0 <= n <= 6 and 0 <= mask <= 63 and 0 <= readd <= 1
    post: _
    """
    n = cz(n, pinval('nmin', 0), pinval('nmax', 5))
    low = pinval('masklow')
    if low is not None:
        assume(mask % 4 == low)
    mask = cz(mask, 0, 2 ** n - 1)
    readd = pin('readd', readd, 0, 1)
    ps = [p0, p1, p2, p3, p4, p5][:n]
    for i in range(n):
        assume(-1000 <= ps[i] <= 1000)
    ranks = order_labels(ps, strict=True)   # pairwise distinct priorities (ties are covered by pq_script)
    with notrace():
        return _removals_body(n, ranks, mask, readd)


# ---- BarrelList itself against list (index translation), thorough tier
def barrel_vs_list(n: int, c1: int, c2: int, op: int, i: int, sf: int) -> bool:
    """
    pre: 0 <= n <= 5 and 0 <= op <= 5 and -5 <= i <= 5
    post: _
    """
    n = cz(n, 0, 5)
    op = pin('op', op, 0, 5)
    i = cz(i, -5, 5)
    c1 = cz(c1, 0, n)
    c2 = cz(c2, c1, n)
    sf = cz(sf, 0, 1)
    # only index arguments that are valid for a list of the same length (what insort / pop(0) / [0]
    # produce); out-of-range behaviour of BarrelList is not part of the queue property
    if op == 0:
        assume(-n <= i <= n)
    elif op == 4:
        assume(0 <= i < n)
    else:
        assume(-n <= i < n)
    if op == 1:
        assume(i >= 0)      # the queue only pops by non-negative position
    with notrace():
        ref = list(range(100, 100 + n))
        bl = BarrelList()
        if sf:
            internal(bl, '_size_factor')
            bl._size_factor = 1
        bl.lists[:] = [ref[:c1], ref[c1:c2], ref[c2:]]
        name = ['insert', 'pop', 'getitem', 'delitem', 'index', 'setitem'][op]
        try:
            if name == 'insert':
                exp = ref.insert(i, 'x')
            elif name == 'pop':
                exp = ref.pop(i)
            elif name == 'getitem':
                exp = ref[i]
            elif name == 'delitem':
                del ref[i]
                exp = None
            elif name == 'index':
                exp = ref.index(100 + i)
            else:
                ref[i] = 'y'
                exp = None
            err = None
        except (IndexError, ValueError) as e:
            err = type(e)
        try:
            if name == 'insert':
                got = bl.insert(i, 'x')
            elif name == 'pop':
                got = bl.pop(i)
            elif name == 'getitem':
                got = bl[i]
            elif name == 'delitem':
                del bl[i]
                got = None
            elif name == 'index':
                got = bl.index(100 + i)
            else:
                bl[i] = 'y'
                got = None
            gerr = None
        except (IndexError, ValueError) as e:
            gerr = type(e)
        if err != gerr:
            return fail('barrel_%s_exception' % name, 'list %r barrel %r' % (err, gerr))
        if err is None and got != exp:
            return fail('barrel_%s_return' % name)
        if list(bl) != ref or len(bl) != len(ref) or list(reversed(bl)) != list(reversed(ref)):
            return fail('barrel_%s_content' % name, '%r vs %r' % (list(bl), ref))
        return done(True, op=name, n=n)


def obligations(tier):
    obs = []
    q = tier == 'quick'
    T = 170 if q else 1500
    adds = ('add_new', 'readd')
    for layout in (0, 1):
        for op1, name in enumerate(OPS):
            if q:
                nmax = 4 if layout == 0 else 3
                obs.append(Ob('pq_script', timeout=T, pins={'layout': layout, 'op1': op1, 'nmax': nmax, 'nops': 1,
                                                            'none_nmax': 2 if layout == 0 else 0}, need_kinds=('multi',)))
            else:
                for op2, name2 in enumerate(OPS):
                    na = (name in adds) + (name2 in adds)
                    obs.append(Ob('pq_script', timeout=T, pins={'layout': layout, 'op1': op1, 'op2': op2,
                                                                'nmax': 4 - na if layout == 0 else 3 - (na > 0), 'nops': 2, 'none_nmax': 2}))
    if q:
        for op1 in (0, 1, 2, 3):
            for op2 in (0, 1, 3):
                na = (op1 < 2) + (op2 < 2)
                obs.append(Ob('pq_script', timeout=T, pins={'layout': 0, 'op1': op1, 'op2': op2, 'nmax': 4 - na, 'nops': 2, 'none_nmax': 1}))
    for op in range(6):
        obs.append(Ob('barrel_vs_list', timeout=T, pins={'op': op}))
    for low in range(4):
        obs.append(Ob('pq_removals', timeout=T if q else 2700, pins={'nmin': 5 if q else 0, 'nmax': 5 if q else 6, 'masklow': low, 'readd': low % 2}, need_kinds=('many_removed',)))
    return obs

"""C20 ThresholdCounter never over-counts, under-counts boundedly, and stays small.

E1 (CrossHair/z3): the key stream is symbolic (equality pattern decided by the solver),
delivered by add / update(iterable) / update(mapping) / update(**kw); after every call
the counter is compared with an exact Counter of the stream.
E2 (direct z3, see vf/e2_c20.py): bounded model checking of a transition relation
generated from the AST of ThresholdCounter.add, asking for a stream that drives the
number of tracked keys above 2/threshold.
"""
import collections
from boltons.cacheutils import ThresholdCounter
from vf.rt import K, cz, pin, pinval, assume, fail, done, notrace, labels
from vf.check import Ob

PROPERTY = 'C20'
_M = 'boltons.cacheutils.ThresholdCounter.'
TARGETS = ['boltons.cacheutils.ThresholdCounter.add (E2: AST -> transition relation)'] + [_M + m for m in ('__init__', 'add', 'update', 'elements', 'most_common', 'get_common_count',
                            'get_uncommon_count', '__getitem__', '__len__', '__contains__', 'keys', 'values',
                            'items', 'iteritems', 'get')]
THRESHOLDS = [0.9, 0.5, 0.34, 0.3, 0.25, 0.2]       # floor(1/t) = 1, 2, 2, 3, 4, 5
BOUNDS = {
    'quick': {'stream_length': '0..7 additions (E1)', 'thresholds': THRESHOLDS,
              'delivery': 'add, update(list), update(iterator), update(mapping), update(**kw), mixed, mapping+kw in one call, one add followed by bulk counts (x2 mapping, x3 keywords)',
              'size_bound_bmc': 'W=5, N=34 additions (E2)'},
    'thorough': {'stream_length': '0..9 additions', 'size_bound_bmc': 'W in 5,6,12; N up to 60'},
}
ASSUMPTIONS = ['keys interact with the counter only through ==/hash',
               'slack = floor(total / floor(1/threshold)) as in the statement']
OUT_OF_CLAIM = ['streams longer than the bound for the E1 clauses', 'thresholds other than the listed ones',
                'get_commonality() float value']
STUBS = []

FORMS = ['add', 'update_list', 'update_iter', 'update_mapping', 'update_kw', 'mixed', 'mapping_and_kw', 'list_and_kw', 'add_then_bulk',
         'update_duck', 'update_counter']


class DuckMap:
    def __init__(self, d):
        self._d = dict(d)

    def items(self):
        return list(self._d.items())

    def keys(self):
        return list(self._d)

    def __iter__(self):
        return iter(self._d)

    def __len__(self):
        return len(self._d)

    def __getitem__(self, k):
        return self._d[k]


def check_state(tc, truth, total, W, thr):
    if tc.total != total:
        return 'total'
    slack = total // W
    for k, t in truth.items():
        c = tc.get(k)
        if c > t:
            return 'overcount'
        if t > c + slack:
            return 'undercount_beyond_slack'
        if t > slack and k not in tc:
            return 'frequent_key_missing'
        if (k in tc) != (tc.get(k, -1) != -1):
            return 'contains_vs_get'
        if k in tc and tc[k] != c:
            return 'getitem_vs_get'
    if len(tc) > 2 / thr:
        return 'size_bound'
    if tc.get_common_count() + tc.get_uncommon_count() != total:
        return 'common_plus_uncommon'
    items = tc.items()
    if len(items) != len(tc) or sorted(map(repr, tc.keys())) != sorted(repr(k) for k, c in items):
        return 'items_keys'
    if sorted(tc.values()) != sorted(c for k, c in items):
        return 'values'
    for k, c in items:
        if tc[k] != c or k not in truth or c < 1:
            return 'items_vs_getitem'
    if sum(c for k, c in items) != tc.get_common_count():
        return 'common_count'
    el = list(tc.elements())
    if len(el) != sum(c for k, c in items):
        return 'elements_len'
    for k, c in items:
        if sum(1 for e in el if e == k) != c:
            return 'elements_counts'
    mc_all = tc.most_common()
    if sorted(map(repr, mc_all)) != sorted(map(repr, items)):
        return 'most_common_all'
    for n in range(1, len(items) + 2):
        mc = tc.most_common(n)
        if len(mc) != min(n, len(items)):
            return 'most_common_n_len'
        counts = [c for k, c in mc]
        if counts != sorted(counts, reverse=True):
            return 'most_common_not_sorted'
        if counts != sorted((c for k, c in items), reverse=True)[:n]:
            return 'most_common_not_top'
        for k, c in mc:
            if tc[k] != c:
                return 'most_common_pairs'
    for lst in (mc_all,):
        counts = [c for k, c in lst]
        if counts != sorted(counts, reverse=True):
            return 'most_common_not_sorted'
    if tc.get('never-seen') != 0 or 'never-seen' in tc:
        return 'absent_key'
    return None


def _body(ti, form, n, ks):
    thr = THRESHOLDS[ti]
    W = int(1 / thr)
    tc = ThresholdCounter(threshold=thr)
    truth = collections.Counter()
    total = 0
    cl = check_state(tc, truth, total, W, thr)
    if cl:
        return fail('empty_' + cl)
    # kwargs need string keys: map labels to strings for every form (same equality pattern)
    keys = ['k%d' % x for x in ks]
    if form == 'add':
        for k in keys:
            tc.add(k)
            truth[k] += 1
            total += 1
            cl = check_state(tc, truth, total, W, thr)
            if cl:
                return fail(cl, 'after add #%d of %r' % (total, keys))
    elif form in ('mapping_and_kw', 'list_and_kw'):
        # one call carrying both a positional source and keyword counts (the same key may be in both)
        half = n // 2
        first, second = keys[:half], keys[half:]
        if form == 'mapping_and_kw':
            tc.update(dict(collections.Counter(first)), **dict(collections.Counter(second)))
        else:
            tc.update(list(first), **dict(collections.Counter(second)))
        for k in keys:
            truth[k] += 1
            total += 1
        cl = check_state(tc, truth, total, W, thr)
        if cl:
            return fail(cl, 'after %s of %r + %r' % (form, first, second))
    elif form == 'add_then_bulk':
        # one add, then one update whose counts are multiples (a mapping with every count doubled, keyword counts tripled):
        # bulk counts step over several bucket boundaries in one call
        for mult, how in ((2, 'mapping'), (3, 'kw')):
            tc = ThresholdCounter(threshold=thr)
            truth = collections.Counter()
            total = 0
            if keys:
                tc.add(keys[0])
                truth[keys[0]] += 1
                total += 1
            bulk = {k: c * mult for k, c in collections.Counter(keys[1:]).items()}
            if how == 'mapping':
                tc.update(bulk)
            else:
                tc.update(None, **bulk)
            for k, c in bulk.items():
                truth[k] += c
                total += c
            cl = check_state(tc, truth, total, W, thr)
            if cl:
                return fail(cl, 'after add(%r) then update(%s %r)' % (keys[:1], how, bulk))
    else:
        half = n // 2
        chunks = [keys[:half], keys[half:]]
        for ci, chunk in enumerate(chunks):
            f = form
            if form == 'mixed':
                f = ['update_mapping', 'update_list'][ci]
            if f == 'update_list':
                tc.update(list(chunk))
            elif f == 'update_iter':
                tc.update(iter(chunk))
            elif f == 'update_mapping':
                tc.update(dict(collections.Counter(chunk)))
            elif f == 'update_kw':
                tc.update(None, **dict(collections.Counter(chunk)))
            elif f == 'update_duck':
                tc.update(DuckMap(collections.Counter(chunk)))       # a mapping by duck typing only (items/keys/iter, no Mapping base)
            elif f == 'update_counter':
                src = ThresholdCounter(threshold=0.01)               # another ThresholdCounter as the source (keeps every count here)
                for k in chunk:
                    src.add(k)
                tc.update(src)
            for k in chunk:
                truth[k] += 1
                total += 1
            cl = check_state(tc, truth, total, W, thr)
            if cl:
                return fail(cl, 'after %s of %r' % (f, chunk))
    evict = len(tc) < len(truth)
    return done(True, kind='dropped_keys' if evict else 'all_tracked', threshold=thr, form=form, n=n)


def tc_stream(ti: int, form: int, n: int, a0: int, a1: int, a2: int, a3: int, a4: int, a5: int, a6: int, a7: int) -> bool:
    """
    pre: 0 <= n <= 8
    post: _
    """
    ti = pin('thr', ti, 0, len(THRESHOLDS) - 1)
    form = pin('form', form, 0, len(FORMS) - 1)
    n = cz(n, 0, pinval('nmax', 6))
    ks = labels([a0, a1, a2, a3, a4, a5, a6, a7][:n])
    with notrace():
        return _body(ti, FORMS[form], n, ks)


# ------------------------------------------------------------------ E2: bounded model checking of add()
def _validate_bmc_translator(thr, W):
    """concrete streams through the encoding and the real class must agree (run AFTER the main query: z3's search
    is sensitive to term creation order, so nothing else is built before it)"""
    import z3
    from vf import e2_c20
    ai = e2_c20.AddInterp(ThresholdCounter)
    for stream in ([0, 1, 0, 2, 0, 3, 3, 1, 4, 0, 5, 5, 5], [0, 0, 1, 2, 3, 4, 0, 5, 6, 1, 1, 7], list(range(9)) + [0, 1, 2]):
        s = z3.Solver()
        st = e2_c20.State(max(stream) + 1, W)
        real = ThresholdCounter(threshold=thr)
        for k in stream:
            ai.step(st, z3.IntVal(k), s)
            real.add(k)
        if s.check() != z3.sat:
            return {'verdict': 'error', 'message': 'translator validation: encoding unsatisfiable on a concrete stream'}
        m = s.model()
        for j in range(max(stream) + 1):
            pres = z3.is_true(m.eval(st.pres[j], model_completion=True))
            if pres != (j in real) or (pres and m.eval(st.cnt[j], model_completion=True).as_long() != real[j]):
                return {'verdict': 'error', 'message': 'translator validation: encoding and ThresholdCounter disagree on stream %r key %d' % (stream, j)}
        if st.total != real.total:
            return {'verdict': 'error', 'message': 'translator validation: total differs'}
    return None


def _bmc(thr, N, goal, timeout):
    """goal: 'size' (tracked keys exceed 2/threshold) or 'counts' (over-count / under-count beyond slack / frequent key missing)"""
    import z3
    import time
    from vf import e2_c20, rt
    tc = ThresholdCounter(threshold=thr)
    W = rt.internal(tc, '_thresh_count')
    if goal == 'size' and 'size_bound' in rt.STATE['assume_not']:
        return {'verdict': 'confirmed', 'paths': 0, 'completed': 0, 'witness': 1,
                'samples': [{'note': 'size-bound clause assumed away (known finding); this obligation checks nothing else'}]}
    ai = e2_c20.AddInterp(ThresholdCounter)
    NK = N
    s = z3.Solver()
    s.set('timeout', int(timeout * 1000))
    bound = 2 / thr
    bad = []
    if goal == 'size':
        # bit-vector encoding (counts and buckets stay below 2^6 for N < 64) + a cardinality constraint: z3's SAT core
        # finds the adversarial stream in about a minute where the integer encoding often answers `unknown`
        assert N < 64
        BW, KW = 7, 6
        e2_c20.INT = lambda name: z3.BitVec(name, BW)
        try:
            keys = [z3.BitVec('k%d' % t, KW) for t in range(N)]
            st = e2_c20.State(NK, W)
            st.cnt = [z3.BitVecVal(0, BW)] * NK
            st.bkt = [z3.BitVecVal(0, BW)] * NK
            mxv = None
            for t in range(N):
                if t == 0:
                    s.add(keys[0] == 0)                                       # symmetry breaking: keys numbered by first appearance
                    mxv = z3.BitVecVal(0, KW)
                else:
                    s.add(z3.ULE(keys[t], mxv + 1), z3.ULT(keys[t], NK))
                    mxn = z3.BitVec('mx%d' % t, KW)
                    s.add(mxn == z3.If(z3.UGT(keys[t], mxv), keys[t], mxv))
                    mxv = mxn
                ai.step(st, keys[t], s)
                bad.append(z3.AtLeast(*st.pres, int(bound) + 1))
        finally:
            e2_c20.INT = z3.Int
    else:
        keys = [z3.Int('k%d' % t) for t in range(N)]
        st = e2_c20.State(NK, W)
        mx = z3.IntVal(-1)
        true_cnt = [z3.IntVal(0)] * NK
        for t in range(N):
            s.add(keys[t] >= 0, keys[t] <= mx + 1, keys[t] < NK)                  # symmetry breaking: keys numbered by first appearance
            mxn = z3.Int('mx%d' % t)
            s.add(mxn == z3.If(keys[t] > mx, keys[t], mx))
            mx = mxn
            ai.step(st, keys[t], s)
            slack = st.total // W
            for j in range(min(NK, t + 1)):
                tcn = z3.Int('t_%d_%d' % (t, j))
                s.add(tcn == true_cnt[j] + z3.If(keys[t] == j, 1, 0))
                true_cnt[j] = tcn
                rep = z3.If(st.pres[j], st.cnt[j], 0)
                bad.append(rep > tcn)                                            # over-count
                bad.append(tcn > rep + slack)                                    # under-count beyond the slack
                bad.append(z3.And(tcn > slack, z3.Not(st.pres[j])))              # a frequent key is missing
    s.add(z3.Or(bad))
    t0 = time.time()
    r = s.check()
    dt = round(time.time() - t0, 2)
    verr = _validate_bmc_translator(thr, W)
    if verr:
        return verr
    if str(r) == 'sat':
        m = s.model()
        stream = [m.eval(k, model_completion=True).as_long() for k in keys]
        return {'verdict': 'counterexample', 'message': 'BMC (%s, threshold=%r, N=%d): stream %r' % (goal, thr, N, stream),
                'call_args': '%r, %r, %r' % (thr, stream, goal), 'replay_function': 'replay_stream', 'paths': 1, 'solver_queries': 1, 'solver_s': dt}
    if str(r) == 'unsat':
        return {'verdict': 'confirmed', 'paths': 1, 'completed': 1, 'witness': 1, 'solver_queries': 1, 'solver_s': dt,
                'samples': [{'goal': goal, 'threshold': thr, 'W': W, 'N': N, 'result': 'unsat'}]}
    return {'verdict': 'inconclusive', 'message': 'z3 answered %s after %.0fs (goal %s, threshold %r, N=%d)' % (r, dt, goal, thr, N), 'paths': 1}


def size_bound_bmc(pins, timeout):
    return _bmc(pins.get('thr', 0.2), pins.get('N', 34), 'size', timeout)


def count_laws_bmc(pins, timeout):
    return _bmc(pins.get('thr', 0.2), pins.get('N', 14), 'counts', timeout)


def replay_stream(thr, stream, goal):
    """feed the solver's stream to the real class and check the same clauses after every addition"""
    tc = ThresholdCounter(threshold=thr)
    W = int(1 / thr)
    truth = collections.Counter()
    for n, k in enumerate(stream):
        tc.add(k)
        truth[k] += 1
        if len(tc) > 2 / thr:
            return fail('size_bound', 'threshold=%r: %d keys tracked after %d additions (bound 2/threshold = %g); stream %r' % (thr, len(tc), n + 1, 2 / thr, stream[:n + 1]))
        slack = (n + 1) // W
        for key, t in truth.items():
            c = tc.get(key)
            if c > t:
                return fail('overcount')
            if t > c + slack:
                return fail('undercount_beyond_slack')
            if t > slack and key not in tc:
                return fail('frequent_key_missing')
    return True


def obligations(tier):
    obs = []
    q = tier == 'quick'
    T = 170 if q else 1500
    for ti in range(len(THRESHOLDS)):
        for form in range(len(FORMS)):
            if form in (1, 2, 4, 6, 7, 9, 10) and ti not in (1, 3):          # form 8 (bulk counts) runs for every threshold
                continue
            need = ('dropped_keys',) if ti < 4 else ()
            obs.append(Ob('tc_stream', timeout=T, pins={'thr': ti, 'form': form, 'nmax': 7 if q else 9}, need_kinds=need))
    # E2: BMC over the transition relation generated from the AST of add()
    obs.append(Ob('size_bound_bmc', timeout=280 if q else 1500, kind='direct', pins={'thr': 0.2, 'N': 34}, name='size_bound_bmc[thr=0.2,N=34]'))
    obs.append(Ob('count_laws_bmc', timeout=150 if q else 1500, kind='direct', pins={'thr': 0.34, 'N': 12 if q else 18}, name='count_laws_bmc[thr=0.34]'))
    obs.append(Ob('count_laws_bmc', timeout=150 if q else 1500, kind='direct', pins={'thr': 0.25, 'N': 12 if q else 18}, name='count_laws_bmc[thr=0.25]'))
    if not q:
        obs.append(Ob('size_bound_bmc', timeout=1500, kind='direct', pins={'thr': 1.0 / 6, 'N': 44}, name='size_bound_bmc[thr=1/6,N=44]'))
    return obs

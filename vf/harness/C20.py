"""C20 ThresholdCounter never over-counts, under-counts boundedly, and stays small.

E1 (CrossHair/z3): the key stream is symbolic (equality pattern decided by the solver),
delivered by add / update(iterable) / update(mapping) / update(**kw); after every call
the counter is compared with an exact Counter of the stream.
E2 (direct z3, see vf/e2_c20.py): bounded model checking of a transition relation
generated from the AST of ThresholdCounter.add, asking for a stream that drives the
number of tracked keys above 2/threshold.
"""
import collections
from boltons.cacheutils import ThresholdCounter
from vf.rt import K, cz, pin, pinval, assume, fail, done, notrace, labels
from vf.check import Ob

PROPERTY = 'C20'
_M = 'boltons.cacheutils.ThresholdCounter.'
TARGETS = [_M + m for m in ('__init__', 'add', 'update', 'elements', 'most_common', 'get_common_count',
                            'get_uncommon_count', '__getitem__', '__len__', '__contains__', 'keys', 'values',
                            'items', 'iteritems', 'get')]
THRESHOLDS = [0.9, 0.5, 0.34, 0.3, 0.25, 0.2]       # floor(1/t) = 1, 2, 2, 3, 4, 5
BOUNDS = {
    'quick': {'stream_length': '0..7 additions (E1)', 'thresholds': THRESHOLDS,
              'delivery': 'add, update(list), update(iterator), update(mapping), update(**kw), mixed',
              'size_bound_bmc': 'W=5, N=34 additions (E2)'},
    'thorough': {'stream_length': '0..9 additions', 'size_bound_bmc': 'W in 5,6,12; N up to 60'},
}
ASSUMPTIONS = ['keys interact with the counter only through ==/hash',
               'slack = floor(total / floor(1/threshold)) as in the statement']
OUT_OF_CLAIM = ['streams longer than the bound for the E1 clauses', 'thresholds other than the listed ones',
                'get_commonality() float value']
STUBS = []

FORMS = ['add', 'update_list', 'update_iter', 'update_mapping', 'update_kw', 'mixed', 'mapping_and_kw', 'list_and_kw']


def check_state(tc, truth, total, W, thr):
    if tc.total != total:
        return 'total'
    slack = total // W
    for k, t in truth.items():
        c = tc.get(k)
        if c > t:
            return 'overcount'
        if t > c + slack:
            return 'undercount_beyond_slack'
        if t > slack and k not in tc:
            return 'frequent_key_missing'
        if (k in tc) != (tc.get(k, -1) != -1):
            return 'contains_vs_get'
        if k in tc and tc[k] != c:
            return 'getitem_vs_get'
    if len(tc) > 2 / thr:
        return 'size_bound'
    if tc.get_common_count() + tc.get_uncommon_count() != total:
        return 'common_plus_uncommon'
    items = tc.items()
    if len(items) != len(tc) or sorted(map(repr, tc.keys())) != sorted(repr(k) for k, c in items):
        return 'items_keys'
    if sorted(tc.values()) != sorted(c for k, c in items):
        return 'values'
    for k, c in items:
        if tc[k] != c or k not in truth or c < 1:
            return 'items_vs_getitem'
    if sum(c for k, c in items) != tc.get_common_count():
        return 'common_count'
    el = list(tc.elements())
    if len(el) != sum(c for k, c in items):
        return 'elements_len'
    for k, c in items:
        if sum(1 for e in el if e == k) != c:
            return 'elements_counts'
    mc_all = tc.most_common()
    if sorted(map(repr, mc_all)) != sorted(map(repr, items)):
        return 'most_common_all'
    for n in range(1, len(items) + 2):
        mc = tc.most_common(n)
        if len(mc) != min(n, len(items)):
            return 'most_common_n_len'
        counts = [c for k, c in mc]
        if counts != sorted(counts, reverse=True):
            return 'most_common_not_sorted'
        if counts != sorted((c for k, c in items), reverse=True)[:n]:
            return 'most_common_not_top'
        for k, c in mc:
            if tc[k] != c:
                return 'most_common_pairs'
    for lst in (mc_all,):
        counts = [c for k, c in lst]
        if counts != sorted(counts, reverse=True):
            return 'most_common_not_sorted'
    if tc.get('never-seen') != 0 or 'never-seen' in tc:
        return 'absent_key'
    return None


def _body(ti, form, n, ks):
    thr = THRESHOLDS[ti]
    W = int(1 / thr)
    tc = ThresholdCounter(threshold=thr)
    truth = collections.Counter()
    total = 0
    cl = check_state(tc, truth, total, W, thr)
    if cl:
        return fail('empty_' + cl)
    # kwargs need string keys: map labels to strings for every form (same equality pattern)
    keys = ['k%d' % x for x in ks]
    if form == 'add':
        for k in keys:
            tc.add(k)
            truth[k] += 1
            total += 1
            cl = check_state(tc, truth, total, W, thr)
            if cl:
                return fail(cl, 'after add #%d of %r' % (total, keys))
    elif form in ('mapping_and_kw', 'list_and_kw'):
        # one call carrying both a positional source and keyword counts (the same key may be in both)
        half = n // 2
        first, second = keys[:half], keys[half:]
        if form == 'mapping_and_kw':
            tc.update(dict(collections.Counter(first)), **dict(collections.Counter(second)))
        else:
            tc.update(list(first), **dict(collections.Counter(second)))
        for k in keys:
            truth[k] += 1
            total += 1
        cl = check_state(tc, truth, total, W, thr)
        if cl:
            return fail(cl, 'after %s of %r + %r' % (form, first, second))
    else:
        half = n // 2
        chunks = [keys[:half], keys[half:]]
        for ci, chunk in enumerate(chunks):
            f = form
            if form == 'mixed':
                f = ['update_mapping', 'update_list'][ci]
            if f == 'update_list':
                tc.update(list(chunk))
            elif f == 'update_iter':
                tc.update(iter(chunk))
            elif f == 'update_mapping':
                tc.update(dict(collections.Counter(chunk)))
            elif f == 'update_kw':
                tc.update(None, **dict(collections.Counter(chunk)))
            for k in chunk:
                truth[k] += 1
                total += 1
            cl = check_state(tc, truth, total, W, thr)
            if cl:
                return fail(cl, 'after %s of %r' % (f, chunk))
    evict = len(tc) < len(truth)
    return done(True, kind='dropped_keys' if evict else 'all_tracked', threshold=thr, form=form, n=n)


def tc_stream(ti: int, form: int, n: int, a0: int, a1: int, a2: int, a3: int, a4: int, a5: int, a6: int, a7: int) -> bool:
    """
    pre: 0 <= n <= 8
    post: _
    """
    ti = pin('thr', ti, 0, len(THRESHOLDS) - 1)
    form = pin('form', form, 0, len(FORMS) - 1)
    n = cz(n, 0, pinval('nmax', 6))
    ks = labels([a0, a1, a2, a3, a4, a5, a6, a7][:n])
    with notrace():
        return _body(ti, FORMS[form], n, ks)


def obligations(tier):
    obs = []
    q = tier == 'quick'
    T = 170 if q else 1500
    for ti in range(len(THRESHOLDS)):
        for form in range(len(FORMS)):
            if form in (1, 2, 4, 6, 7) and ti not in (1, 3):
                continue
            need = ('dropped_keys',) if ti < 4 else ()
            obs.append(Ob('tc_stream', timeout=T, pins={'thr': ti, 'form': form, 'nmax': 7 if q else 9}, need_kinds=need))
    return obs

"""C01 OrderedMultiDict behaves as an insertion-ordered list of (key, value) pairs.

Engine E1.  Keys: symbolic identity (equality pattern decided by z3, then K(label));
values: symbolic ints that flow through the real methods and are compared with the
reference model by solver-decided equalities.  Pre-state: built through the public
API from n symbolic pairs (constructor, or adds followed by one assignment); then
one (quick) or two (thorough) operations with pinned op-code and symbolic arguments;
after every operation the full read battery is compared with a pair-list model.
"""
import copy
import pickle
from boltons.dictutils import OrderedMultiDict
from vf.rt import K, cz, pin, pinval, assume, fail, done, notrace, labels
from vf.check import Ob

PROPERTY = 'C01'
_M = 'boltons.dictutils.OrderedMultiDict.'
TARGETS = [_M + m for m in (
    '__new__', '__init__', '__getstate__', '__setstate__', '_clear_ll', '_insert', 'add', 'addlist', 'get',
    'getlist', 'clear', 'setdefault', 'copy', 'fromkeys', 'update', 'update_extend', '__setitem__',
    '__getitem__', '__delitem__', '__eq__', '__ne__', '__ior__', 'pop', 'popall', 'poplast', 'popitem',
    '_remove', '_remove_all', 'iteritems', 'iterkeys', 'itervalues', 'todict', 'sorted', 'sortedvalues',
    'inverted', 'counts', 'keys', 'values', 'items', '__iter__', '__reversed__', '__repr__')] + [
    'boltons.urlutils.QueryParamDict']
BOUNDS = {
    'quick': {'pre_state_pairs': '0..3', 'operations': 1, 'argument_pairs': '<=2',
              'classes': 'OrderedMultiDict', 'values': 'unbounded symbolic ints'},
    'thorough': {'pre_state_pairs': '0..4', 'operations': 2, 'argument_pairs': '<=2',
                 'classes': 'OrderedMultiDict, urlutils.QueryParamDict'},
}
ASSUMPTIONS = ['keys have consistent __eq__/__hash__; values are compared with ==',
               'reference for update/|=: delete every pair whose key occurs in the argument, then append the '
               "argument's pairs in order (what the OMD-argument branch documents)",
               'popitem may return any present key with its visible value, removing all of that key\'s pairs']
OUT_OF_CLAIM = ['more than 4 pre-state pairs or 2 argument pairs', 'values whose == has side effects',
                'sort key functions other than identity and negation']
STUBS = []

CLASSES = [OrderedMultiDict, None]
DFLT = -9      # the default object passed to pop/popall/poplast/getlist; also stored as a value


def _cls(i):
    if i == 1:
        from boltons.urlutils import QueryParamDict
        return QueryParamDict
    return CLASSES[i]


# ---------------------------------------------------------------- reference model helpers
def m_keys(L):
    out = []
    for k, v in L:
        if k not in out:
            out.append(k)
    return out


def m_last(L, k):
    r = None
    for a, b in L:
        if a == k:
            r = b
    return r


def m_list(L, k):
    return [b for a, b in L if a == k]


def m_has(L, k):
    for a, b in L:
        if a == k:
            return True
    return False


def veq(a, b):
    """sequence equality with solver-decided element equality"""
    a = list(a)
    b = list(b)
    if len(a) != len(b):
        return False
    for x, y in zip(a, b):
        if not (x == y):
            return False
    return True


def peq(a, b):
    a = list(a)
    b = list(b)
    if len(a) != len(b):
        return False
    for (k1, v1), (k2, v2) in zip(a, b):
        if not (k1 == k2) or not (v1 == v2):
            return False
    return True


def reads_ok(o, L, probe):
    """Compare every read of OMD `o` with the pair-list model L; returns None or a clause name."""
    keys = m_keys(L)
    if not peq(o.items(multi=True), L) or not peq(list(o.iteritems(multi=True)), L):
        return 'items_multi'
    if not peq(o.items(), [(k, m_last(L, k)) for k in keys]):
        return 'items'
    if not veq(o.keys(), keys) or not veq(list(o), keys) or not veq(list(o.iterkeys()), keys):
        return 'keys'
    if not veq(o.keys(multi=True), [k for k, v in L]):
        return 'keys_multi'
    if not veq(o.values(), [m_last(L, k) for k in keys]):
        return 'values'
    if not veq(o.values(multi=True), [v for k, v in L]) or not veq(list(o.itervalues(multi=True)), [v for k, v in L]):
        return 'values_multi'
    if len(o) != len(keys) or bool(o) != bool(keys):
        return 'len'
    if not veq(list(reversed(o)), list(reversed(keys))):
        return 'reversed'
    for k in keys + [probe]:
        present = m_has(L, k)
        if (k in o) != present:
            return 'contains'
        if not veq(o.getlist(k), m_list(L, k)):
            return 'getlist'
        if present:
            if not (o[k] == m_last(L, k)) or not (o.get(k) == m_last(L, k)) or not (o.get(k, -5) == m_last(L, k)):
                return 'getitem'
        else:
            if o.get(k) is not None or not (o.get(k, -5) == -5) or o.getlist(k, None) is not None:
                return 'get_default'
            try:
                o[k]
                return 'getitem_absent_no_keyerror'
            except KeyError:
                pass
    td = o.todict()
    tdm = o.todict(multi=True)
    if len(td) != len(keys) or len(tdm) != len(keys) or not veq(list(td), keys) or not veq(list(tdm), keys):
        return 'todict_keys'
    for k in keys:
        if not (td[k] == m_last(L, k)) or not veq(tdm[k], m_list(L, k)):
            return 'todict_values'
    if not peq(o.counts().items(multi=True), [(k, len(m_list(L, k))) for k in keys]):
        return 'counts'
    return None


def stress_epilogue(o, L, extra_keys):
    """Public-API stress after the operation: latent corruption of the internal structures must
    not surface later.  Every key ever involved gets a pair appended and its last pair popped,
    then every key is deleted, with the ordered reads compared after each step."""
    keys = m_keys(L)
    for k in extra_keys:
        if k not in keys:
            keys.append(k)
    tok = 7000
    for k in keys:
        tok += 1
        o.add(k, tok)
        L = L + [(k, tok)]
        if not peq(o.items(multi=True), L) or not veq(o.getlist(k), m_list(L, k)):
            return 'epilogue_add'
    for k in keys[:1]:
        r = o.poplast(k)
        idx = max(i for i, (a, b) in enumerate(L) if a == k)
        if not (r == L[idx][1]):
            return 'epilogue_poplast_return'
        L = L[:idx] + L[idx + 1:]
        if not peq(o.items(multi=True), L):
            return 'epilogue_poplast'
    for k in keys:
        if not m_has(L, k):
            if k in o:
                return 'epilogue_ghost_key'
            continue
        del o[k]
        L = [(a, b) for a, b in L if not (a == k)]
        if not peq(o.items(multi=True), L) or not veq(o.keys(), m_keys(L)) or len(o) != len(m_keys(L)) or k in o:
            return 'epilogue_del'
        if not veq(list(reversed(o)), list(reversed(m_keys(L)))):
            return 'epilogue_reversed'
    if o.items(multi=True) or len(o) or list(o):
        return 'epilogue_not_empty'
    return None


def eq_ok(o, L, cls):
    """==/!= against OMDs and plain mappings"""
    keys = m_keys(L)
    same = cls(list(L))
    if not (o == same) or (o != same) or not (same == o):
        return 'eq_same_omd'
    if L:
        import itertools
        for perm in itertools.permutations(range(len(L))):
            PL = [L[i] for i in perm]
            other = cls(PL)
            exp = peq(PL, L)
            if (o == other) != exp or (o != other) == exp or (other == o) != exp:
                return 'eq_permuted_omd'
        shorter = cls(list(L[:-1]))
        if o == shorter or not (o != shorter):
            return 'eq_shorter_omd'
        k0, v0 = L[-1]
        changed = cls(list(L[:-1]) + [(k0, -1 if v0 is None else v0 + 1)])
        if o == changed or not (o != changed):
            return 'eq_changed_value_omd'
    plain = {k: m_last(L, k) for k in keys}
    if not (o == plain) or (o != plain):
        return 'eq_plain_mapping_same'
    if keys:
        k0 = keys[0]
        plain2 = dict(plain)
        plain2[k0] = -1 if m_last(L, k0) is None else m_last(L, k0) + 1
        if o == plain2 or not (o != plain2):
            return 'eq_plain_mapping_other_value'
        plain3 = dict(plain)
        del plain3[k0]
        plain3[K(77)] = 0
        if o == plain3 or not (o != plain3):
            return 'eq_plain_mapping_other_key'
    if o == 5 or o == [(1, 2)]:
        return 'eq_non_mapping'
    # a mapping that creates missing keys on lookup: with one key replaced it must compare unequal and stay untouched
    if keys:
        import collections
        k0 = keys[0]
        dd = collections.defaultdict(lambda: m_last(L, k0))
        for k in keys[1:]:
            dd[k] = m_last(L, k)
        dd[K(78)] = 0
        before = len(dd)
        if o == dd or not (o != dd):
            return 'eq_defaultdict_other_key'
        if len(dd) != before:
            return 'eq_mutated_the_other_mapping'
    # one extra pair whose key AND value are None under an existing None key (no internal filler may stand in for it)
    base = list(L) + [(None, None)]
    one, two = cls(base), cls(base + [(None, None)])
    if one == two or two == one or not (one != two):
        return 'eq_none_none_pair'
    return None


def derived_ok(o, L, cls):
    """inverted / sorted / sortedvalues / repr / fromkeys on concretised values"""
    inv = o.inverted()
    if not isinstance(inv, cls) or not peq(inv.items(multi=True), [(v, k) for k, v in L]):
        return 'inverted'
    if not peq(inv.inverted().items(multi=True), L):
        return 'inverted_twice'
    key = lambda kv: (kv[1], kv[0].i)
    s = o.sorted(key=key)
    if not isinstance(s, cls) or not peq(s.items(multi=True), sorted(L, key=key)):
        return 'sorted'
    s = o.sorted(key=key, reverse=True)
    if not peq(s.items(multi=True), sorted(L, key=key, reverse=True)):
        return 'sorted_reverse'
    # a key with ties (pairs of one key compare equal): sorting is stable, also with reverse=True
    tie = lambda kv: kv[0].i
    for rev in (False, True):
        s = o.sorted(key=tie, reverse=rev)
        if not peq(s.items(multi=True), sorted(L, key=tie, reverse=rev)):
            return 'sorted_ties_reverse' if rev else 'sorted_ties'
    for rev in (False, True):
        sv = o.sortedvalues(reverse=rev)
        pools = {}
        for k in m_keys(L):
            pools[k] = sorted(m_list(L, k), reverse=rev)
        exp = []
        for k, v in L:
            exp.append((k, pools[k].pop(0)))
        if not peq(sv.items(multi=True), exp):
            return 'sortedvalues'
        if not peq(o.items(multi=True), L):
            return 'sortedvalues_mutated_source'
    r = repr(o)
    exp_r = '%s([%s])' % (cls.__name__, ', '.join(repr((k, v)) for k, v in L))
    if r != exp_r:
        return 'repr'
    fk = cls.fromkeys(m_keys(L), 7)
    if not peq(fk.items(multi=True), [(k, 7) for k in m_keys(L)]):
        return 'fromkeys'
    return None


# ---------------------------------------------------------------- operations
OPS = ['add', 'addlist', 'setitem', 'delitem', 'update_mapping', 'update_omd', 'update_pairs', 'update_kw',
       'update_extend', 'ior', 'setdefault', 'pop', 'popall', 'poplast_key', 'poplast', 'popitem', 'clear',
       'copy', 'copy_copy', 'deepcopy', 'pickle', 'ctor', 'update_self']
NARGS = {'add': 1, 'addlist': 1, 'setitem': 1, 'delitem': 1, 'update_mapping': 2, 'update_omd': 2,
         'update_pairs': 2, 'update_kw': 1, 'update_extend': 2, 'ior': 2, 'setdefault': 1, 'pop': 1,
         'popall': 1, 'poplast_key': 1, 'poplast': 0, 'popitem': 0, 'clear': 0, 'copy': 1, 'copy_copy': 1,
         'deepcopy': 1, 'pickle': 1, 'ctor': 2, 'update_self': 0}


def m_update(L, pairs):
    ks = [k for k, v in pairs]
    return [(a, b) for a, b in L if a not in ks] + list(pairs)


def container(kind, pairs):
    if kind == 0:
        return list(pairs)
    if kind == 1:
        return tuple(pairs)
    return iter(list(pairs))


def apply_op(o, L, cls, name, kk, v, kk2, v2, kind, nv):
    """returns (clause or None, new model)"""
    if name == 'add':
        o.add(kk, v)
        return None, L + [(kk, v)]
    if name == 'addlist':
        vals = [v, v2][:nv]
        arg = container(kind, vals)
        o.addlist(kk, arg)
        if kind == 0:
            # the caller goes on using its list: the mapping must not follow (no aliasing of the argument)
            arg.append('late value')
            arg[0:1] = ['changed value']
        return None, L + [(kk, x) for x in vals]
    if name == 'setitem':
        o[kk] = v
        return None, [(a, b) for a, b in L if not (a == kk)] + [(kk, v)]
    if name == 'delitem':
        try:
            del o[kk]
            if not m_has(L, kk):
                return 'del_absent_no_keyerror', L
        except KeyError:
            if m_has(L, kk):
                return 'del_present_keyerror', L
        return None, [(a, b) for a, b in L if not (a == kk)]
    if name in ('update_mapping', 'update_omd', 'update_pairs', 'ior'):
        pairs = [(kk, v), (kk2, v2)][:nv]
        if name == 'update_mapping' or (name == 'ior' and kind == 0):
            arg = {}
            for a, b in pairs:
                arg[a] = b
            pairs = list(arg.items())
        elif name == 'update_omd' or (name == 'ior' and kind == 1):
            arg = cls(pairs)
        else:
            arg = container(kind, pairs)
        if name == 'ior':
            o0 = o
            o |= arg
            if o is not o0:
                return 'ior_identity', L
        else:
            o.update(arg)
        if name == 'update_omd' and not peq(arg.items(multi=True), pairs):
            return 'update_mutated_argument', L
        # the caller goes on using its argument afterwards
        if isinstance(arg, list):
            arg.append(('late key', 'late value'))
        elif isinstance(arg, dict) and not isinstance(arg, cls):
            arg['late key'] = 'late value'
        elif isinstance(arg, cls):
            arg.add('late key', 'late value')
        return None, m_update(L, pairs)
    if name == 'update_kw':
        o.update([(kk, v)], kwa=v2)
        return None, m_update(m_update(L, [(kk, v)]), [('kwa', v2)])
    if name == 'update_extend':
        pairs = [(kk, v), (kk2, v2)][:nv]
        if kind == 0:
            arg = {}
            for a, b in pairs:
                arg[a] = b
            pairs = list(arg.items())
        elif kind == 1:
            arg = cls(pairs)
        else:
            arg = iter(pairs)
        if nv == 2 and kind == 2:
            o.update_extend(arg, kwa=v)       # keyword arguments are appended after the positional source
            return None, L + pairs + [('kwa', v)]
        o.update_extend(arg)
        return None, L + pairs
    if name == 'setdefault':
        if nv == 0:
            r = o.setdefault(kk)
            dv = None
        else:
            r = o.setdefault(kk, v)
            dv = v
        if m_has(L, kk):
            if not (r == m_last(L, kk)):
                return 'setdefault_return', L
            return None, L
        if not (r == dv):
            return 'setdefault_return', L
        return None, L + [(kk, dv)]
    if name in ('pop', 'popall'):
        present = m_has(L, kk)
        try:
            if nv == 0:
                r = o.pop(kk) if name == 'pop' else o.popall(kk)
                if not present:
                    return name + '_absent_no_keyerror', L
            else:
                r = o.pop(kk, DFLT) if name == 'pop' else o.popall(kk, DFLT)
        except KeyError:
            if present or nv != 0:
                return name + '_keyerror', L
            return None, L
        if present:
            if name == 'pop':
                if not (r == m_last(L, kk)):
                    return 'pop_return', L
            elif not veq(r, m_list(L, kk)):
                return 'popall_return', L
        elif not (r == DFLT):
            return name + '_default', L
        return None, [(a, b) for a, b in L if not (a == kk)]
    if name == 'poplast_key':
        present = m_has(L, kk)
        try:
            r = o.poplast(kk) if nv == 0 else o.poplast(kk, DFLT)
        except KeyError:
            if present or nv != 0:
                return 'poplast_keyerror', L
            return None, L
        if not present:
            if nv == 0 or not (r == DFLT):
                return 'poplast_default', L
            return None, L
        if not (r == m_last(L, kk)):
            return 'poplast_return', L
        idx = max(i for i, (a, b) in enumerate(L) if a == kk)
        return None, L[:idx] + L[idx + 1:]
    if name == 'poplast':
        try:
            r = o.poplast() if nv == 0 else o.poplast(default=DFLT)
        except KeyError:
            if L or nv != 0:
                return 'poplast_keyerror', L
            return None, L
        if not L:
            if nv == 0 or not (r == DFLT):
                return 'poplast_default', L
            return None, L
        if not (r == L[-1][1]):
            return 'poplast_return', L
        return None, L[:-1]
    if name == 'popitem':
        try:
            a, b = o.popitem()
        except KeyError:
            if L:
                return 'popitem_keyerror', L
            return None, L
        if not L:
            return 'popitem_empty_no_keyerror', L
        if not m_has(L, a) or not (b == m_last(L, a)):
            return 'popitem_return', L
        return None, [(x, y) for x, y in L if not (x == a)]
    if name == 'clear':
        o.clear()
        return None, []
    if name in ('copy', 'copy_copy', 'deepcopy', 'pickle'):
        if name == 'copy':
            c = o.copy()
        elif name == 'copy_copy':
            c = copy.copy(o)
        elif name == 'deepcopy':
            c = copy.deepcopy(o)
        else:
            c = pickle.loads(pickle.dumps(o, nv + 2 if nv < 2 else 5))
        if c is o or type(c) is not cls:
            return name + '_type', L
        cl = reads_ok(c, L, kk)
        if cl:
            return name + '_' + cl, L
        if not (c == o) or (c != o):
            return name + '_not_equal', L
        c.add(kk, v)                     # independence
        c[K(55)] = v2
        if not peq(o.items(multi=True), L):
            return name + '_not_independent', L
        cl = reads_ok(c, [(a, b) for a, b in L] + [(kk, v), (K(55), v2)], kk)
        if cl:
            return name + '_after_mutation_' + cl, L
        return None, L
    if name == 'ctor':
        pairs = [(kk, v), (kk2, v2)][:nv]
        if kind == 0:
            c = cls(container(2, L + pairs))
            exp = L + pairs
        elif kind == 1:
            arg = {}
            for a, b in pairs:
                arg[a] = b
            c = cls(arg, kwb=v2)
            exp = list(arg.items()) + [('kwb', v2)]
        else:
            c = cls(o)
            exp = L
        cl = reads_ok(c, exp, kk)
        if cl:
            return 'ctor_' + cl, L
        return None, L
    if name == 'update_self':
        if kind == 0:
            o.update(o)
            return None, L
        if kind == 1:
            o.update(o, kwa=v)                # E is self: nothing to merge, the keyword still applies
            return None, m_update(L, [('kwa', v)])
        o.update_extend(o)
        keys = m_keys(L)
        return None, L + [(k, m_last(L, k)) for k in keys]
    raise AssertionError(name)


def light_reads_ok(o, L, probe):
    if not peq(o.items(multi=True), L):
        return 'items_multi'
    if not veq(o.getlist(probe), m_list(L, probe)):
        return 'getlist'
    if m_has(L, probe):
        if not (o[probe] == m_last(L, probe)):
            return 'getitem'
    elif probe in o:
        return 'contains'
    if len(o) != len(m_keys(L)):
        return 'len'
    return None


def _step_body(cls, name, n, gen, kind, nv, ks, vals, v, w, light):
    rd = light_reads_ok if light else reads_ok
    L = [(K(ks[i]), vals[i]) for i in range(n)]
    kk, kk2 = [K(x) for x in (ks[n:] + [90, 91])[:2]]
    if gen == 0:
        o = cls(list(L))
    else:
        # second generator: adds, then one assignment of the first key (dict order != first-occurrence order)
        o = cls()
        for a, b in L:
            o.add(a, b)
        if L:
            o[L[0][0]] = L[0][1]
            L = [(a, b) for a, b in L if not (a == L[0][0])] + [L[0]]
    cl = rd(o, L, kk)
    if cl:
        return fail('pre_' + cl, 'after construction')
    cl, L = apply_op(o, L, cls, name, kk, v, kk2, w, kind, nv)
    if cl:
        return fail(cl, name)
    cl = rd(o, L, kk)
    if cl:
        return fail(name + '_then_' + cl, 'kind=%d nv=%d' % (kind, nv))
    if not light:
        cl = eq_ok(o, L, cls)
        if cl:
            return fail(cl, name)
        cl = stress_epilogue(o, L, [kk, kk2] + [K(x) for x in ks[:n]])
        if cl:
            return fail(name + '_then_' + cl, 'kind=%d nv=%d' % (kind, nv))
    return done(True, op=name, n=n, cls=cls.__name__, gen=gen, kind=kind, values='symbolic' if light else 'unique tokens')


def omd_step(ci: int, gen: int, n: int, a0: int, v0: int, a1: int, v1: int, a2: int, v2_: int, a3: int, v3: int,
             op: int, k: int, v: int, k2: int, w: int, kind: int, nv: int) -> bool:
    """
    pre: 0 <= n <= 4 and 0 <= gen <= 1 and 0 <= kind <= 2 and 0 <= nv <= 2
    post: _
    """
    ci = pin('cls', ci, 0, 1)
    op = pin('op', op, 0, len(OPS) - 1)
    name = OPS[op]
    light = pinval('mode', 'full') == 'sym'
    n = cz(n, 0, pinval('nmax', 3))
    gen = cz(gen, 0, 1)
    kind = cz(kind, 0, 2)
    nv = cz(nv, 0, 2)
    na = NARGS[name]
    ks = labels([a0, a1, a2, a3][:n] + [k, k2][:na])
    cls = _cls(ci)
    if light:
        # values stay symbolic ints: they flow through the real methods and every comparison
        # with the model is decided by z3 (light read battery)
        return _step_body(cls, name, n, gen, kind, nv, ks, [v0, v1, v2_, v3][:n], v, w, True)
    # full read battery: every pair carries a unique concrete token as its value, the
    # key-equality pattern was decided above; the rest runs untraced on the real classes
    with notrace():
        return _step_body(cls, name, n, gen, kind, nv, ks, [None, DFLT, 102, 103][:n], 200, 201, False)


def _step2_body(cls, name, name_b, n, kind, nv, kind_b, nv_b, ks, nids, nb):
    vals = [None, DFLT, 102][:n]
    v, w, v3 = 200, 201, 202
    L = [(K(ks[i]), vals[i]) for i in range(n)]
    kk, kk2 = [K(x) for x in (ks[n:n + nids] + [90, 91])[:2]]
    kk3 = K(ks[-1]) if nb else K(92)
    o = cls(list(L))
    cl, L = apply_op(o, L, cls, name, kk, v, kk2, w, kind, nv)
    if cl:
        return fail(cl, name)
    cl = reads_ok(o, L, kk3)
    if cl:
        return fail(name + '_then_' + cl)
    cl, L = apply_op(o, L, cls, name_b, kk3, v3, kk2, w, kind_b, nv_b)
    if cl:
        return fail(cl, name + ',' + name_b)
    cl = reads_ok(o, L, kk)
    if cl:
        return fail(name + '_' + name_b + '_then_' + cl)
    cl = eq_ok(o, L, cls)
    if cl:
        return fail(cl, name + ',' + name_b)
    cl = stress_epilogue(o, L, [kk, kk2, kk3] + [K(x) for x in ks[:n]])
    if cl:
        return fail(name + '_' + name_b + '_then_' + cl)
    return done(True, op=name, op_b=name_b, n=n, cls=cls.__name__)


def omd_step2(ci: int, n: int, a0: int, a1: int, a2: int,
              op: int, k: int, k2: int, kind: int, nv: int,
              op_b: int, k3: int, kind_b: int, nv_b: int) -> bool:
    """
    pre: 0 <= n <= 3 and 0 <= kind <= 2 and 0 <= nv <= 2 and 0 <= kind_b <= 2 and 0 <= nv_b <= 2
    post: _
    """
    ci = pin('cls', ci, 0, 1)
    op = pin('op', op, 0, len(OPS) - 1)
    op_b = pin('op_b', op_b, 0, len(OPS) - 1)
    name, name_b = OPS[op], OPS[op_b]
    n = cz(n, 0, pinval('nmax', 3))
    kind = cz(kind, 0, 2)
    nv = cz(nv, 0, 2)
    kind_b = cz(kind_b, 0, 2)
    nv_b = cz(nv_b, 0, 2)
    na, nb = NARGS[name], NARGS[name_b]
    nids = max(na, 2 if nb == 2 else 0)
    ks = labels([a0, a1, a2][:n] + [k, k2][:nids] + ([k3] if nb else []))
    cls = _cls(ci)
    with notrace():
        return _step2_body(cls, name, name_b, n, kind, nv, kind_b, nv_b, ks, nids, nb)


def omd_derived(ci: int, n: int, a0: int, v0: int, a1: int, v1: int, a2: int, v2_: int, a3: int, v3: int) -> bool:
    """
    pre: 0 <= n <= 4
    post: _
    """
    ci = pin('cls', ci, 0, 1)
    n = cz(n, 0, pinval('nmax', 3))
    ks = labels([a0, a1, a2, a3][:n])
    vals = [cz(x, 0, 2) for x in [v0, v1, v2_, v3][:n]]
    cls = _cls(ci)
    with notrace():
        L = [(K(ks[i]), vals[i]) for i in range(n)]
        o = cls(list(L))
        cl = derived_ok(o, L, cls)
        if cl:
            return fail(cl)
        cl = reads_ok(o, L, K(9))
        if cl:
            return fail('derived_then_' + cl)
        return done(True, n=n, cls=cls.__name__)


SYM_OPS = ['add', 'addlist', 'setitem', 'delitem', 'update_mapping', 'update_omd', 'update_pairs',
           'update_extend', 'ior', 'setdefault', 'pop', 'popall', 'poplast_key', 'poplast', 'popitem',
           'copy', 'copy_copy', 'deepcopy']


def obligations(tier):
    obs = []
    q = tier == 'quick'
    T = 170 if q else 1200
    for ci in ((0,) if q else (0, 1)):
        for op, name in enumerate(OPS):
            obs.append(Ob('omd_step', timeout=T, pins={'cls': ci, 'op': op, 'nmax': 3 if q else 4, 'mode': 'full'}))
            if name in SYM_OPS and ci == 0:
                obs.append(Ob('omd_step', timeout=T, pins={'cls': ci, 'op': op, 'nmax': 2 if q else 3, 'mode': 'sym'}))
        obs.append(Ob('omd_derived', timeout=T, pins={'cls': ci, 'nmax': 3 if q else 4}))
    if not q:
        second = ('add', 'setitem', 'delitem', 'update_pairs', 'poplast_key', 'popitem', 'copy_copy', 'update_omd')
        for op in range(len(OPS)):
            for op_b in range(len(OPS)):
                if OPS[op] in ('update_self', 'ctor') or OPS[op_b] not in second:
                    continue
                obs.append(Ob('omd_step2', timeout=T, pins={'cls': 0, 'op': op, 'op_b': op_b, 'nmax': 2}))
    return obs

"""C16 traceback text / ParsedException round-trips; ExceptionInfo matches the interpreter.

Engine E1.
(a) text round-trip: a well-formed traceback text is generated from a structure (frame count,
    which frames have a source line, function-name kind, message class - every combination)
    with ONE free text field (path, function name, source line, exception type tail or
    message) whose characters the solver draws from an explicit 106-character alphabet (all
    printable ASCII, controls, non-ASCII representatives); from_string must recover the
    generating structure and to_string must reproduce the text.  A fully symbolic character
    through the regex scanner did not exhaust (>1000 paths, 3 min, one field) - see DESIGN.
(b) live exceptions: call chains of solver-chosen depth and kinds (plain function, lambda,
    code compiled without source) raising solver-chosen exception types/messages;
    TracebackInfo/ExceptionInfo vs traceback.extract_tb / format_exception.
"""
import sys
import traceback
from boltons.tbutils import ParsedException, ExceptionInfo, TracebackInfo, ContextualExceptionInfo, ContextualTracebackInfo
from vf.rt import cz, pin, pinval, assume, fail, done, notrace
from vf.check import Ob

PROPERTY = 'C16'
TARGETS = ['boltons.tbutils.ParsedException.from_string', 'boltons.tbutils.ParsedException.to_string',
           'boltons.tbutils.Callpoint.tb_frame_str', 'boltons.tbutils.Callpoint.from_tb', 'boltons.tbutils.TracebackInfo.from_traceback',
           'boltons.tbutils.TracebackInfo.get_formatted', 'boltons.tbutils.TracebackInfo.to_dict', 'boltons.tbutils.ExceptionInfo.from_exc_info',
           'boltons.tbutils.ExceptionInfo.get_formatted', 'boltons.tbutils.ExceptionInfo.to_dict', 'boltons.tbutils._DeferredLine.__str__']
BOUNDS = {
    'quick': {'text': 'frames 0..2, each with/without source line, function names identifier / <module> / <lambda>, messages empty / one line / containing ": " / two lines / with an empty or blank middle line; one free field of 1-2 characters (first from a 106-character alphabet, second from 13 format-relevant characters)',
              'live': 'call chains of depth 1..4 over plain / lambda / source-less / run-time generated frames, 6 exception types, 4 message classes'},
    'thorough': {'text': 'frames 0..3, free field of 2 characters'},
}
ASSUMPTIONS = ['lines are separated by "\\n" only and no field contains a character str.splitlines breaks on', 'source lines are stripped, non-empty and do not look like a frame or marker line',
               'the text carries no trailing newline (as in the repository tests)', 'fields have no leading/trailing blanks']
OUT_OF_CLAIM = ['SyntaxError layout, chained causes, notes, "Exception ... ignored" epilogues', 'free fields longer than the bound', 'exception classes nested in other classes (qualified names)']
STUBS = []

FIELDS = ['path', 'func', 'source', 'etype', 'msg']


def _is_break(c):
    return (c == '\n' or c == '\r' or c == '\x0b' or c == '\x0c' or c == '\x1c' or c == '\x1d' or c == '\x1e'
            or c == '\x85' or c == '\u2028' or c == '\u2029')


STRUCTS = [(1, 1, 0, 1), (2, 1, 1, 3), (1, 0, 2, 0), (2, 2, 0, 2), (0, 0, 0, 1)]     # (nframes, srcmask, fkind, mclass)
ALPHABET = [chr(i) for i in range(32, 127)] + ['\t', '\x00', '\x1f', '\x7f', '\xa0', '\xe9', '\u0131', '\u200b', '\u3000', '\ufeff', '\U0001f600']


SPECIALS = ['"', ',', ' ', ':', '<', '>', '\t', '\xe9', '^', '~', '.', '0', 'F']


def text_law(s: str) -> bool:
    """
    pre: len(s) <= 2
    post: _
    """
    field = FIELDS[pinval('field', 0)]
    assume(1 <= len(s) <= pinval('lmax', 1))
    for i in range(len(s)):
        assume(not _is_break(s[i]))
    if pinval('ascii', 0):
        for i in range(len(s)):
            assume(ord(s[i]) < 128)
    nframes, srcmask, fkind, mclass = STRUCTS[pinval('struct', 0)]
    return _text_core(field, s, nframes, srcmask, fkind, mclass)


def text_struct_law(ci: int, cj: int) -> bool:
    """
    pre: True
    post: _
    """
    field = FIELDS[pinval('field', 0)]
    ci = cz(ci, 0, len(ALPHABET) - 1)
    free = ALPHABET[ci]
    second = SPECIALS if pinval('lmax', 1) == 1 else ALPHABET     # quick: second character from the characters the format itself uses
    cj = cz(cj, 0, len(second))
    if cj < len(second):
        free += second[cj]
    with notrace():
        # every structure is run for the chosen free text (concrete loop)
        fmax = pinval('fmax', 2)
        n = 0
        for nframes in range(1 if field in ('path', 'func', 'source') else 0, fmax + 1):
            for srcmask in range(2 ** nframes):
                for fkind in range(3):
                    for mclass in range(8):
                        r = _text_core(field, free, nframes, srcmask, fkind, mclass, record=False)
                        if r is not True:
                            return r
                        n += 1
        return done(True, kind=field, free=free, structures=n)


def _text_core(field, s, nframes, srcmask, fkind, mclass, record=True):
    if field in ('path', 'func', 'source') and nframes < 1:
        return done(False) if record else True
    frames = []
    for i in range(nframes):
        fr = {'filepath': '/a b/m%d.py' % i, 'lineno': str(10 + i), 'funcname': ['fn%d' % i, '<module>', '<lambda>'][(fkind + i) % 3],
              'source_line': ('x = call(%d)' % i) if srcmask & (1 << i) else ''}
        frames.append(fr)
    etype = 'pkg.MyError'
    msg = ['', 'boom', 'key: value: more', 'first\nsecond line', 'one\n\nthree', 'one\n   \nthree: x', 'ends in blank ', 'first \nsecond\t'][mclass]
    # place the symbolic field (fields carry no leading/trailing blanks: surround with fixed characters)
    if field == 'path':
        frames[0]['filepath'] = '/d' + s + 'r/x.py'
    elif field == 'func':
        frames[-1]['funcname'] = 'f' + s + 'g'
    elif field == 'source':
        frames[-1]['source_line'] = 'a' + s + 'b'
    elif field == 'etype':
        if ':' in s:
            return done(False) if record else True   # a type name has no ": " separator inside
        etype = 'E' + s + 'r'
    else:
        msg = 'm' + s + 'g'
    lines = ['Traceback (most recent call last):']
    for fr in frames:
        lines.append('  File "%s", line %s, in %s' % (fr['filepath'], fr['lineno'], fr['funcname']))
        if fr['source_line']:
            lines.append('    ' + fr['source_line'])
    lines.append(etype + (': ' + msg if msg else ''))
    text = '\n'.join(lines)
    pe = ParsedException.from_string(text)
    if pe.exc_type != etype:
        return fail('exc_type_not_recovered', '%r: %r' % (text, pe.exc_type))
    if pe.exc_msg != msg:
        return fail('exc_msg_not_recovered', '%r: %r' % (text, pe.exc_msg))
    if len(pe.frames) != nframes:
        return fail('frame_count', '%r: %r' % (text, pe.frames))
    for got, exp in zip(pe.frames, frames):
        for k in ('filepath', 'lineno', 'funcname', 'source_line'):
            if got.get(k) != exp[k]:
                return fail('frame_field_not_recovered', '%r: frame field %s = %r expected %r' % (text, k, got.get(k), exp[k]))
    if pe.to_string() != text:
        return fail('to_string_not_identical', '%r -> %r' % (text, pe.to_string()))
    return done(True, kind=field, nframes=nframes) if record else True


# ------------------------------------------------------------------ live exceptions
class CustomError(Exception):
    pass


EXC_TYPES = [ValueError, KeyError, CustomError, ZeroDivisionError, RuntimeError, OSError]
MESSAGES = ['', 'boom', 'key: value', 'two\nlines']


def _raiser(exc):
    raise exc


_lam = lambda nxt: nxt()                                        # noqa: E731
_ns = {}
exec(compile('def nosrc(nxt):\n    return nxt()\n', '<no-source-file>', 'exec'), _ns)
_nosrc = _ns['nosrc']
# code generated at run time inside a namespace that HAS __file__ / __name__ (like namedtuple or FunctionBuilder output)
_ns2 = {'__file__': __file__, '__name__': __name__}
exec(compile('def generated(nxt):\n    return nxt()\n', '<generated-code>', 'exec'), _ns2)
_generated = _ns2['generated']
_evlam = eval('lambda nxt: nxt()', {'__file__': __file__, '__name__': __name__})


def _plain(nxt):
    return nxt()


def _oneline(nxt): return (lambda: nxt())()                    # noqa: E704 - two functions (_oneline, <lambda>) on ONE source line


def _fin(nxt):
    # a frame that keeps running after the failing call: its current line moves on, the traceback's line does not
    try:
        return nxt()
    finally:
        _fin.count = getattr(_fin, 'count', 0) + 1


def _reraise(nxt):
    try:
        return nxt()
    except Exception:
        _reraise.count = getattr(_reraise, 'count', 0) + 1
        raise


def _live_body(kinds, ti, mi):
    etype = EXC_TYPES[ti]
    exc = etype(MESSAGES[mi]) if MESSAGES[mi] else etype()
    call = lambda: _raiser(exc)                                 # noqa: E731
    for k in reversed(kinds):
        fn = [_plain, _lam, _nosrc, _generated, _evlam, _fin, _reraise, _oneline][k]
        call = (lambda fn=fn, nxt=call: fn(nxt))
    try:
        call()
        return fail('no_exception')
    except Exception:
        et, ev, tb = sys.exc_info()
        ei = ExceptionInfo.from_exc_info(et, ev, tb)
        ti_ = TracebackInfo.from_traceback(tb)
        cei = ContextualExceptionInfo.from_exc_info(et, ev, tb)
        cti = ContextualTracebackInfo.from_traceback(tb)
        std = traceback.extract_tb(tb)
        std_text = ''.join(traceback.format_exception(et, ev, tb))
    if len(ei.tb_info.frames) != len(std) or len(ti_.frames) != len(std):
        return fail('frame_count_vs_traceback_module')
    for cp, fs in zip(ei.tb_info.frames, std):
        if cp.module_path != fs.filename or cp.lineno != fs.lineno or cp.func_name != fs.name:
            return fail('frame_fields_vs_traceback_module', '%r vs %r' % (cp, fs))
        if str(cp.line).strip() != (fs.line or ''):
            return fail('frame_source_vs_traceback_module', '%r vs %r' % (str(cp.line), fs.line))
    # the contextual subclasses list the same frames (plus locals and surrounding lines)
    for frames in (cei.tb_info.frames, cti.frames):
        if len(frames) != len(std):
            return fail('contextual_frame_count')
        for cp, fs in zip(frames, std):
            if cp.module_path != fs.filename or cp.lineno != fs.lineno or cp.func_name != fs.name:
                return fail('contextual_frame_fields_vs_traceback_module', '%r vs %r' % (cp, fs))
            if str(cp.line).strip() != (fs.line or ''):
                return fail('contextual_frame_source_vs_traceback_module', '%r vs %r' % (str(cp.line), fs.line))
    d = ei.to_dict()
    if [f['lineno'] for f in d['exc_tb']['frames']] != [fs.lineno for fs in std]:
        return fail('to_dict_frames')
    if d['exc_msg'] != str(ev):
        return fail('to_dict_message')
    # formatted output == the interpreter's, position-marker lines aside
    std_lines = [ln for ln in std_text.split('\n') if not (ln.strip() and set(ln.strip()) <= set('^~'))]
    exp = '\n'.join(std_lines)
    got = ei.get_formatted() + '\n'
    if got != exp:
        return fail('formatted_output_vs_interpreter', 'got %r expected %r' % (got, exp))
    return done(True, kind='empty_message' if not MESSAGES[mi] else 'message', depth=len(kinds), etype=etype.__name__)


def live_law(depth: int, k0: int, k1: int, k2: int, k3: int, ti: int, mi: int) -> bool:
    """
    pre: 1 <= depth <= 4
    post: _
    """
    depth = cz(depth, pinval('dmin', 1), pinval('dmax', 3))
    kinds = [cz(k, 0, 7) for k in [k0, k1, k2, k3][:depth]]
    if pinval('k0') is not None:
        assume(kinds[0] == pinval('k0'))
    ti = cz(ti, 0, len(EXC_TYPES) - 1)
    mi = cz(mi, 0, len(MESSAGES) - 1)
    with notrace():
        return _live_body(kinds, ti, mi)


def obligations(tier):
    obs = []
    q = tier == 'quick'
    T = 170 if q else 1500
    for fi in range(len(FIELDS)):
        obs.append(Ob('text_struct_law', timeout=T, pins={'field': fi, 'fmax': 2 if q else 3, 'lmax': 1 if q else 2}))
    obs.append(Ob('live_law', timeout=T, pins={'dmin': 1, 'dmax': 2}, need_kinds=('empty_message', 'message')))
    for k0 in range(8):
        obs.append(Ob('live_law', timeout=T, pins={'dmin': 3, 'dmax': 3, 'k0': k0}, need_kinds=('empty_message', 'message')))
        if not q:
            obs.append(Ob('live_law', timeout=T, pins={'dmin': 4, 'dmax': 4, 'k0': k0}, need_kinds=('empty_message', 'message')))
    return obs

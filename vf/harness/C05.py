"""C05 a failed or refused atomic_save leaves the destination intact and cleans up.

Engine E1 + vf/fakeos.py with fault injection: which call fails (one or two of the ticked
calls: open, chmod, write, flush, fsync, close, rename, link), the configuration flags, the
process umask, the initial state of destination and part file, a racing creator of the
destination and an exception raised by the body are all solver-chosen.
"""
import errno
import boltons.fileutils as fu
from vf import fakeos
from vf.fakeos import FakeFS, Inode
from vf import rt
from vf.rt import cz, pin, pinval, assume, fail, done, notrace
from vf.check import Ob

PROPERTY = 'C05'
TARGETS = ['boltons.fileutils.AtomicSaver.__init__', 'boltons.fileutils.AtomicSaver.setup',
           'boltons.fileutils.AtomicSaver._open_part_file', 'boltons.fileutils.AtomicSaver.__enter__',
           'boltons.fileutils.AtomicSaver.__exit__', 'boltons.fileutils.atomic_save', 'boltons.fileutils.atomic_rename',
           'boltons.fileutils.replace']
BOUNDS = {
    'quick': {'faults': 'none or one failing call at any tick 0..17 (two in a separate obligation)', 'writes': '0..2',
              'config': 'overwrite, overwrite_part, rm_part_on_exc, text_mode, file_perms in None/0o600/0o644/0o777, umask in 0/0o022/0o077',
              'initial state': 'destination absent / present (0o640, 0o600); part file absent / present; destination appearing at any tick',
              'body': 'normal or raising before/after its writes',
              'permission words': 'modes_law: every mode 0..0o7777 of the replaced file and every explicit file_perms 0..0o7777, per umask (fault-free save)'},
    'thorough': {'faults': 'every pair of failing calls', 'writes': '0..3'},
}
ASSUMPTIONS = ['fault sites are the steps the statement lists (open+fdopen = creating the part file, chmod, write, flush, fsync, close, link/rename); stat/lexists/unlink are not',
               'fakeos POSIX model (see C04)']
OUT_OF_CLAIM = ['faults inside os.path helpers', 'signals', 'the real umask syscall', 'more than two faults']
STUBS = ['boltons.fileutils.os -> vf.fakeos.FakeOS', 'boltons.fileutils.set_cloexec -> no-op counter']

DEST = '/d/f'
PART = '/d/f.part'
OLD = b'old!'
PERMS = [None, 0o600, 0o644, 0o777]
UMASKS = [0, 0o022, 0o077]
FakeFS.NOFAULT = ('stat', 'lexists', 'unlink', 'after')       # fdopen (wrapping the new descriptor) is part of creating the part file


class BodyError(Exception):
    """raised by the with-block body; its instances are FALSY (an aggregate-of-errors exception with an empty list is):
    whether the body failed is a matter of the exception TYPE being present, not of the instance's truth value"""
    def __bool__(self):
        return False

    def __len__(self):
        return 0


def _run(fs, kw, nwrites, body_exc, payload, saver=None):
    """one atomic save (through `saver`, an AtomicSaver that may be re-entered, or a fresh atomic_save); returns (exception or None)"""
    undo = fakeos.install(fu, fs)
    try:
        try:
            with (saver if saver is not None else fu.atomic_save(DEST, **kw)) as f:
                if body_exc == 1:
                    raise BodyError('before writes')
                for i in range(nwrites):
                    f.write(payload[i])
                if body_exc == 2:
                    raise BodyError('after writes')
                if body_exc == 3:
                    f.close()            # the body closes the part file itself: finalisation then fails with ValueError (not an OSError)
        except (OSError, BodyError, ValueError) as e:
            return e
        return None
    finally:
        undo()


def _body(fault1, fault2, overwrite, overwrite_part, rm_part, text_mode, perm_i, umask_i, dest_state, part_exists,
          racer_at, body_exc, nwrites, dest_mode=None, perms=None):
    faults = tuple(x for x in (fault1, fault2) if x >= 0)
    racer = None
    if racer_at >= 0:
        created = []

        def racer_fn(fs):
            if DEST not in fs.names:
                fs.names[DEST] = Inode(0o604, b'racer')
                created.append(1)
        racer = (racer_at, racer_fn)
    fs = FakeFS(fault_at=faults, umask=UMASKS[umask_i], racer=racer)
    if dest_state:
        fs.names[DEST] = Inode(dest_mode if dest_mode is not None else (0o640 if dest_state == 1 else 0o600), OLD)
    if part_exists:
        fs.names[PART] = Inode(0o644, b'someone else')
    foreign_part = fs.names.get(PART)
    payload = ['\xe9x', 'yz', 'w'] if text_mode else [b'\xc3x', b'yz', b'w']
    new = ''.join(payload[:nwrites]).encode('utf-8') if text_mode else b''.join(payload[:nwrites])
    kw = dict(overwrite=overwrite, overwrite_part=overwrite_part, rm_part_on_exc=rm_part, text_mode=text_mode)
    req_perms = perms if perms is not None else PERMS[perm_i]
    if req_perms is not None:
        kw['file_perms'] = req_perms
    dest_before = fs.names.get(DEST)
    before = (dest_before.kernel, dest_before.mode) if dest_before is not None else None
    undo0 = fakeos.install(fu, fs)
    try:
        saver = fu.AtomicSaver(DEST, **kw)          # ONE saver object: the retry below re-enters it
    finally:
        undo0()
    exc = _run(fs, kw, nwrites, body_exc, payload, saver=saver)
    raced = racer is not None and bool(created)
    dest = fs.names.get(DEST)
    tag = 'faults=%r exc=%r log=%r' % (fs.faulted, type(exc).__name__ if exc else None, fs.log)
    if exc is None:
        # the save completed: content, part file gone, permissions rule
        if fs.faulted:
            return fail('fault_swallowed_silently', tag)
        if body_exc:
            return fail('body_exception_swallowed', tag)
        if dest is None or dest.kernel != new:
            return fail('completed_but_wrong_content', tag)
        if dest is dest_before:
            return fail('completed_in_place_write', tag)
        if PART in fs.names and fs.names[PART] is not foreign_part:
            return fail('completed_but_part_left', tag)
        if before is not None and not overwrite:
            return fail('overwrite_false_replaced_existing', tag)
        if raced and not overwrite and before is None:
            return fail('overwrite_false_replaced_racer', tag)
        if req_perms is not None:
            exp_mode = req_perms
        elif before is not None:
            exp_mode = before[1]
        elif raced and dest_before is None and fs.log.index('stat') >= 0 and False:
            exp_mode = None
        else:
            exp_mode = 0o666 & ~UMASKS[umask_i]
        if raced and before is None and req_perms is None:
            exp_mode = None              # the racer's file may or may not have been seen by the stat(): either rule is acceptable
        if exp_mode is not None and dest.mode != exp_mode:
            return fail('completed_permissions', 'mode %o expected %o; %s' % (dest.mode, exp_mode, tag))
        if part_exists and not overwrite_part:
            return fail('foreign_part_overwritten_without_overwrite_part', tag)
        return done(True, kind='completed', faults=len(faults))
    # ---- the save did not complete
    if isinstance(exc, BodyError) and not body_exc:
        return fail('spurious_body_error')
    if before is not None:
        if dest is None or dest is not dest_before or (dest.kernel, dest.mode) != before:
            return fail('failed_save_changed_destination', tag)
    else:
        if dest is not None and not (raced and dest.kernel == b'racer' and dest.mode == 0o604):
            return fail('failed_save_created_destination', tag)
    part_now = fs.names.get(PART)
    if part_exists and not overwrite_part:
        # refused at setup: the foreign part file must be exactly as it was
        if part_now is not foreign_part or part_now.kernel != b'someone else':
            return fail('foreign_part_touched', tag)
        if not (isinstance(exc, OSError) and exc.errno == errno.EEXIST):
            if not fs.faulted and not (before is not None and not overwrite):
                return fail('foreign_part_wrong_error', tag)
        return done(True, kind='refused_part_exists')
    if rm_part and part_now is not None and not (part_now is foreign_part and part_now.kernel == b'someone else' and 'open' not in fs.log):
        return fail('part_file_left_behind', tag)
    if not rm_part and part_now is not None and part_now is foreign_part and overwrite_part and 'open' in fs.log and 'open' not in fs.faulted:
        return fail('foreign_part_reused', tag)
    # an immediate retry without faults succeeds (when clean-up was requested and nothing forbids the save)
    if rm_part and not (before is not None and not overwrite) and not (raced and not overwrite):
        fs.fault_at = ()
        fs.faulted = []
        fs.racer = None               # ... and without a competitor appearing during the retry (that would be a legitimate refusal)
        e2 = _run(fs, kw, nwrites, 0, payload, saver=saver)
        if e2 is not None:
            return fail('retry_failed', 'retry raised %r after %s' % (e2, tag))
        d2 = fs.names.get(DEST)
        if d2 is None or d2.kernel != new or PART in fs.names:
            return fail('retry_wrong_result', tag)
        # the permissions rule holds for the retry through the same saver object too
        exp2 = req_perms if req_perms is not None else (before[1] if before is not None else (None if raced else 0o666 & ~UMASKS[umask_i]))
        if exp2 is not None and d2.mode != exp2:
            return fail('retry_permissions', 'mode %o expected %o; %s' % (d2.mode, exp2, tag))
    kind = 'refused_dest_exists' if (before is not None and not overwrite and not fs.faulted and not body_exc) else \
        ('failed_by_fault' if fs.faulted else ('body_raised' if body_exc else 'refused_other'))
    return done(True, kind=kind, faults=len(faults))


def fault_law(fault1: int, fault2: int, overwrite: bool, rm_part: bool, dest_state: int, body_exc: int, nwrites: int,
              text_mode: bool) -> bool:
    """
    pre: -1 <= fault1 <= 17 and -1 <= fault2 <= 17 and 0 <= dest_state <= 1 and 0 <= body_exc <= 3 and 0 <= nwrites <= 3
    post: _
    """
    two = pinval('two', 0)
    fault1 = cz(fault1, -1, 17)
    if two:
        lo = pinval('f2lo', 0)
        fault2 = cz(fault2, max(fault1 + 1, lo), min(17, lo + pinval('f2span', 17)))
        assume(fault1 >= 0)
    else:
        fault2 = -1
    overwrite = True if overwrite else False
    rm_part = True if rm_part else False
    dest_state = cz(dest_state, 0, 1)
    body_exc = cz(body_exc, 0, 3) if not two else 0
    nwrites = cz(nwrites, 0, pinval('wmax', 2))
    text_mode = pin('text', 1 if text_mode else 0, 0, 1) == 1
    with notrace():
        return _body(fault1, fault2, overwrite, False, rm_part, text_mode, 0, 1, dest_state, 0, -1, body_exc, nwrites)


def perms_law(perm_i: int, umask_i: int, dest_state: int, text_mode: bool, overwrite: bool, fault1: int) -> bool:
    """
    pre: 0 <= perm_i <= 3 and 0 <= umask_i <= 2 and 0 <= dest_state <= 2 and -1 <= fault1 <= 12
    post: _
    """
    perm_i = cz(perm_i, 0, 3)
    umask_i = cz(umask_i, 0, 2)
    dest_state = cz(dest_state, 0, 2)
    text_mode = True if text_mode else False
    overwrite = True if overwrite else False
    fault1 = cz(fault1, -1, 8)
    with notrace():
        return _body(fault1, -1, overwrite, False, True, text_mode, perm_i, umask_i, dest_state, 0, -1, 0, 1)


def modes_law(umask_i: int, text_mode: bool, which: int) -> bool:
    """
    pre: 0 <= umask_i <= 2 and 0 <= which <= 1
    post: _
    """
    # every permission word: as the mode of the file being replaced (which=0) and as the explicit file_perms (which=1);
    # the 4096 values are looped concretely inside the path (the mode only flows through stat/chmod)
    umask_i = cz(umask_i, 0, 2)
    which = cz(which, 0, 1)
    text_mode = True if text_mode else False
    with notrace():
        snap = (rt.STATE['paths'], rt.STATE['witness'], dict(rt.STATE['witness_kinds']), list(rt.STATE['samples']))
        for m in range(0o10000):
            if which == 0:
                r = _body(-1, -1, True, False, True, text_mode, 0, umask_i, 1, 0, -1, 0, 1, dest_mode=m)
            else:
                r = _body(-1, -1, True, False, True, text_mode, 0, umask_i, 1, 0, -1, 0, 1, perms=m)
            if r is not True:
                return r
        # the inner runs are one explored path, not 4096
        rt.STATE['paths'], rt.STATE['witness'], rt.STATE['witness_kinds'], rt.STATE['samples'] = snap
        return done(True, kind='completed', modes=0o10000)


def part_law(overwrite_part: bool, rm_part: bool, part_exists: bool, dest_state: int, overwrite: bool, fault1: int, body_exc: int) -> bool:
    """
    pre: 0 <= dest_state <= 1 and -1 <= fault1 <= 14 and 0 <= body_exc <= 2
    post: _
    """
    overwrite_part = True if overwrite_part else False
    rm_part = True if rm_part else False
    part_exists = True if part_exists else False
    overwrite = True if overwrite else False
    dest_state = cz(dest_state, 0, 1)
    fault1 = cz(fault1, -1, 14)
    body_exc = cz(body_exc, 0, 2)
    with notrace():
        return _body(fault1, -1, overwrite, overwrite_part, rm_part, False, 0, 1, dest_state, 1 if part_exists else 0, -1, body_exc, 1)


def racer_law(racer_at: int, overwrite: bool, rm_part: bool, perm_i: int, nwrites: int, fault1: int) -> bool:
    """
    pre: 0 <= racer_at <= 16 and 0 <= perm_i <= 1 and 0 <= nwrites <= 2 and -1 <= fault1 <= 14
    post: _
    """
    racer_at = cz(racer_at, 0, 16)
    overwrite = True if overwrite else False
    rm_part = True if rm_part else False
    perm_i = cz(perm_i, 0, 1)
    nwrites = cz(nwrites, 0, 1)
    fault1 = cz(fault1, -1, 14) if pinval('faults', 0) else -1
    with notrace():
        return _body(fault1, -1, overwrite, False, rm_part, False, perm_i, 1, 0, 0, racer_at, 0, nwrites)


def obligations(tier):
    obs = []
    q = tier == 'quick'
    T = 170 if q else 1500
    for text in (0, 1):
        obs.append(Ob('fault_law', timeout=T, pins={'two': 0, 'text': text, 'wmax': 2 if q else 3},
                      need_kinds=('completed', 'failed_by_fault', 'body_raised', 'refused_dest_exists')))
    obs.append(Ob('perms_law', timeout=T, need_kinds=('completed',)))
    obs.append(Ob('modes_law', timeout=T, need_kinds=('completed',)))
    obs.append(Ob('part_law', timeout=T, need_kinds=('completed', 'refused_part_exists')))
    obs.append(Ob('racer_law', timeout=T, pins={'faults': 0}, need_kinds=('completed',)))
    if q:
        for lo in (0, 6, 12):
            obs.append(Ob('fault_law', timeout=T, pins={'two': 1, 'text': 0, 'wmax': 1, 'f2lo': lo, 'f2span': 5}, need_kinds=('failed_by_fault',)))
    else:
        for lo in range(0, 18, 3):
            for text in (0, 1):
                obs.append(Ob('fault_law', timeout=T, pins={'two': 1, 'text': text, 'wmax': 2, 'f2lo': lo, 'f2span': 2}, need_kinds=('failed_by_fault',)))
        obs.append(Ob('racer_law', timeout=T, pins={'faults': 1}, need_kinds=('completed',)))
    return obs

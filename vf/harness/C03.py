"""C03 concurrent LRI/LRU operations are atomic and never corrupt the cache.

Engine E3 on top of E1: the methods of LRI/LRU are rewritten (vf/coro.py, from the repository
source on every run) into coroutines with a yield before every access to shared state and a
model of the re-entrant lock; two logical threads each run one (thorough: two) operation on a
shared cache in a reachable state; the SCHEDULE - which thread starts and at which of the
numbered choice points the running thread is pre-empted - is a set of symbolic integers
decided by z3 through CrossHair, as is the key-equality pattern.  Oracle: the outcome (each
thread's result or exception, final contents, eviction order observed by inserting fresh
keys, len <= max_size, cache still usable) equals that of one of the sequential orders run
on the UNTRANSFORMED class.  A counterexample schedule is replayed on real threads running
the untransformed code under sys.settrace.
"""
import sys
import boltons.cacheutils as cu
from vf import coro
from vf.rt import K, cz, pin, pinval, assume, fail, done, notrace, labels, resumed
from vf.check import Ob

PROPERTY = 'C03'
_M = 'boltons.cacheutils.LRI.'
TARGETS = [_M + m for m in ('__setitem__', '__getitem__', '__delitem__', 'pop', 'popitem', 'clear', 'setdefault', 'update', '__eq__', 'get', 'copy',
                            '_get_link_and_move_to_front_of_ll', '_set_key_and_add_to_front_of_ll', '_set_key_and_evict_last_in_ll',
                            '_remove_from_ll')] + ['boltons.cacheutils.LRU.__getitem__']
BOUNDS = {
    'quick': {'threads': 2, 'operations_per_thread': '1 (a few obligations: 2 on one thread)', 'on_miss': 'absent; a loader returning a fresh value per call in separate obligations', 'context_switches': '<= 2 (any choice points)', 'max_size': '1..2', 'initial_entries': '0..2',
              'operation pairs': 'every operation paired with [] = and with itself, LRU; [] = pairs also on LRI'},
    'thorough': {'operation pairs': 'all unordered pairs, both classes', 'context_switches': '<= 3'},
}
ASSUMPTIONS = ['single C-level dict operations are atomic (GIL)', 'pre-emption matters only between statements that touch shared state (yield points there)',
               'keys interact only through ==/hash']
OUT_OF_CLAIM = ['more than 2 threads / more operations per thread / more context switches than the bound', 'iteration, repr concurrent with writers (not in the locked set)',
                'the three counters', 'free-threaded builds', 'pre-emption inside a statement between two shared accesses (thorough tier of the design, not built)']
STUBS = ['threading.RLock -> vf.coro.ModelLock inside the transformed classes']

OPS = ['setitem', 'getitem', 'delitem', 'pop', 'popitem', 'clear', 'setdefault', 'update', 'eq', 'get', 'copy']
_CACHE = {}


def classes(mutant):
    key = tuple(mutant)
    if key not in _CACHE:
        with notrace():               # compile/exec must not see CrossHair's dict proxies
            _CACHE[key] = coro.transform(cu, drop_lock_in=mutant)
    return _CACHE[key]


def co_op(c, op, k, v):
    if op == 'setitem':
        return c.__setitem__(k, v)
    if op == 'getitem':
        return c.__getitem__(k)
    if op == 'delitem':
        return c.__delitem__(k)
    if op == 'pop':
        return c.pop(k, 'dflt')
    if op == 'popitem':
        return c.popitem()
    if op == 'clear':
        return c.clear()
    if op == 'setdefault':
        return c.setdefault(k, v)
    if op == 'update':
        return c.update([(k, v)])
    if op == 'eq':
        return c.__eq__({k: v})
    if op == 'copy':
        return c.copy()
    return c.get(k, 'dflt')


def real_op(c, op, k, v):
    if op == 'setitem':
        c[k] = v
        return None
    if op == 'getitem':
        return c[k]
    if op == 'delitem':
        del c[k]
        return None
    if op == 'pop':
        return c.pop(k, 'dflt')
    if op == 'popitem':
        return c.popitem()
    if op == 'clear':
        return c.clear()
    if op == 'setdefault':
        return c.setdefault(k, v)
    if op == 'update':
        return c.update([(k, v)])
    if op == 'eq':
        return c == {k: v}
    if op == 'copy':
        return c.copy()
    return c.get(k, 'dflt')


def probe_order(c, setter, ms):
    """eviction order through the public API: insert max_size fresh keys, watch who leaves; also proves the cache is usable"""
    before = list(dict.keys(c))
    order = []
    for i in range(ms):
        try:
            setter(c, K(1000 + i), i)
        except Exception as e:            # noqa - an unusable cache is part of the outcome
            return ('unusable', type(e).__name__)
        if len(c) > ms:
            return ('oversize', len(c))
        now = list(dict.keys(c))
        gone = [k for k in before if not any(k is x for x in now) and not any(k is g for g in order)]
        order.extend(gone)
    return tuple(k.i for k in order)


def make_on_miss():
    """user loader: every call returns a fresh value, so the number and order of calls is visible in the results"""
    calls = []

    def on_miss(key):
        calls.append(key)
        return ('made', len(calls))
    return on_miss


def thread_gen(c, oplist):
    """one logical thread: its operations in program order; a KeyError ends that operation, not the thread"""
    out = []
    for o in oplist:
        try:
            r = yield from co_op(c, *o)
            out.append(('ok', _norm(r)))
        except KeyError:
            out.append(('KeyError', None))
    return tuple(out)


def real_thread_fn(c, oplist):
    out = []
    for o in oplist:
        try:
            out.append(('ok', _norm(real_op(c, *o))))
        except KeyError:
            out.append(('KeyError', None))
    return tuple(out)


def outcome_conc(Co, ms, init, threads, first, switches, record=None, onmiss=0):
    c = Co.__new__(Co)
    if onmiss:
        Co.__init__(c, max_size=ms, on_miss=make_on_miss())
    else:
        Co.__init__(c, max_size=ms)
    for k, v in init:
        coro.drive(c.__setitem__(k, v))
    gens = [thread_gen(c, oplist) for oplist in threads]
    res, dead = coro.run_concurrent(None, gens, first, switches, record=record)
    if dead:
        return ('deadlock',), c
    contents = sorted((k.i, repr(v)) for k, v in dict.items(c))
    size_ok = len(c) <= ms
    order = probe_order(c, lambda cc, k, v: coro.drive(cc.__setitem__(k, v)), ms)
    return (tuple((r[0], r[1]) for r in res), tuple(contents), size_ok, order), c


def _norm(v):
    if isinstance(v, dict) and hasattr(v, 'max_size'):
        # a cache returned by copy(): its contents and its eviction order (observed on the copy itself)
        import inspect
        contents = tuple(sorted((getattr(k, 'i', k), repr(x)) for k, x in dict.items(v)))
        if inspect.isgeneratorfunction(type(v).__setitem__):
            order = probe_order(v, lambda cc, k, x: coro.drive(cc.__setitem__(k, x)), v.max_size)
        else:
            order = probe_order(v, lambda cc, k, x: cc.__setitem__(k, x), v.max_size)
        return ('cache', contents, order)
    if isinstance(v, tuple) and len(v) == 2 and isinstance(v[0], K):
        return ('item', v[0].i, v[1])
    if isinstance(v, K):
        return ('K', v.i)
    return v


def outcome_seq(Real, ms, init, threads, order_of_threads, onmiss=0):
    """order_of_threads: a sequence of thread indexes, each thread appearing once per operation it runs"""
    c = Real(max_size=ms, on_miss=make_on_miss()) if onmiss else Real(max_size=ms)
    for k, v in init:
        c[k] = v
    res = [[] for _ in threads]
    nxt = [0] * len(threads)
    for t in order_of_threads:
        o = threads[t][nxt[t]]
        nxt[t] += 1
        try:
            res[t].append(('ok', _norm(real_op(c, *o))))
        except KeyError:
            res[t].append(('KeyError', None))
    contents = sorted((k.i, repr(v)) for k, v in dict.items(c))
    order = probe_order(c, lambda cc, k, v: cc.__setitem__(k, v), ms)
    return (tuple(('ok', tuple(r)) for r in res), tuple(contents), True, order)


def thread_orders(lens):
    """all interleavings of the threads' operations that respect each thread's own order"""
    if not any(lens):
        return [()]
    out = []
    for t in range(len(lens)):
        if lens[t]:
            rest = list(lens)
            rest[t] -= 1
            out.extend((t,) + o for o in thread_orders(rest))
    return out


def _real_thread_check(ci, ms, init, threads, first, switch_set, model_out, onmiss=0):
    """replay interpreter only: force the model's event order on real threads running the untransformed class"""
    Co = classes(())[ci]
    record = []
    out, cmodel = outcome_conc(Co, ms, init, threads, first, lambda n: n in switch_set, record=record, onmiss=onmiss)
    Real = [cu.LRI, cu.LRU][ci]

    def make_cache():
        c = Real(max_size=ms, on_miss=make_on_miss()) if onmiss else Real(max_size=ms)
        for k, v in init:
            c[k] = v
        return c
    fns = [(lambda cc, ol=ol: real_thread_fn(cc, ol)) for ol in threads]
    cache, res, stuck, consumed = coro.real_thread_replay(cu, make_cache, fns, record, timeout=3.0)
    real_res = tuple((r[0] if r else 'none', r[1] if r else None) for r in res)
    real_contents = tuple(sorted((k.i, repr(v)) for k, v in dict.items(cache)))
    return (real_res == out[0] and real_contents == out[1]), {'events': len(record), 'consumed': consumed, 'stuck': stuck,
                                                               'real_results': real_res, 'real_contents': real_contents}


def linearizable(ci: int, ms: int, n: int, k0: int, k1: int, opa: int, ka: int, opb: int, kb: int, s0: int, s1: int, s2: int, s3: int,
                 ka2: int = 0) -> bool:
    """
    pre: 1 <= ms <= 2 and 0 <= n <= 2 and 0 <= s0 <= 1 and -1 <= s1 and s1 < s2 and s2 < s3 and s3 <= 60
    post: _
    """
    ci = pin('cls', ci, 0, 1)
    mutant = tuple(pinval('mutant', ()))
    opa = pin('opa', opa, 0, len(OPS) - 1)
    opb = pin('opb', opb, 0, len(OPS) - 1)
    opa2 = pinval('opa2')                 # optional second operation of thread A (program order: opa, then opa2)
    onmiss = pinval('onmiss', 0)          # cache built with an on_miss loader
    ms = cz(ms, 1, 2)
    n = cz(n, 0, 2)
    nsw = pinval('switches', 2)
    ks = labels([k0, k1][:n] + [ka, kb] + ([ka2] if opa2 is not None else []))
    init = [(K(ks[i]), 10 + i) for i in range(n)]
    ops = [[(OPS[opa], K(ks[n]), 'A')], [(OPS[opb], K(ks[n + 1]), 'B')]]
    if opa2 is not None:
        ops[0].append((OPS[opa2], K(ks[n + 2]), 'A2'))
    sw = [s1, s2, s3][:nsw]

    def is_switch(used):
        # the only symbolic operation of the run: is choice point number `used` one of the switch points?
        # (forks in the solver only at choice points that are actually reached)
        with resumed():
            for s in sw:
                if used == s:
                    return True
            return False
    if 'crosshair' in sys.modules:
        s0 = cz(s0, 0, 1)
    with notrace():
        return _lin_body(ci, mutant, ms, n, init, ops, s0, sw, is_switch, opa, opb, onmiss)


def _lin_body(ci, mutant, ms, n, init, ops, s0, sw, is_switch, opa, opb, onmiss=0):
    Co = classes(mutant)[ci]
    out, _c = outcome_conc(Co, ms, init, ops, s0, is_switch, onmiss=onmiss)
    Real = [cu.LRI, cu.LRU][ci]
    ok = False
    seqs = []
    for order_of_threads in thread_orders([len(t) for t in ops]):
        so = outcome_seq(Real, ms, init, ops, order_of_threads, onmiss=onmiss)
        seqs.append(so)
        if out[0] != ('deadlock',) and out[0] == so[0] and out[1] == so[1] and out[2] and out[3] == so[3]:
            ok = True
    if ok:
        return done(True, kind='agrees', ops=tuple(tuple(o[0] for o in t) for t in ops), ms=ms, n=n)
    detail = 'ops=%r init=%r ms=%d first=%r: concurrent outcome %r matches neither sequential order %r' % (
        ops, init, ms, s0, out, seqs)
    if 'crosshair' not in sys.modules and not mutant:
        # replay interpreter: confirm on real threads running the untransformed code
        first = int(s0)
        reproduced, info = _real_thread_check(ci, ms, init, ops, first, set(int(x) for x in sw), out, onmiss=onmiss)
        if not reproduced:
            # the interleaving is not realisable on the real class (e.g. the real lock forbids it): not a violation
            return True
        detail = 'REPRODUCED ON REAL THREADS %r | ' % (info,) + detail
    return fail('not_linearizable', detail)


def selfcheck(pins, timeout):
    """translator self-check (concrete): sequential op sequences give the same results and contents on the transformed
    (coroutines driven to completion) and on the original classes"""
    import itertools
    n = 0
    for ci in (0, 1):
        Co = classes(())[ci]
        Real = [cu.LRI, cu.LRU][ci]
        for ms in (1, 2, 3):
            for seq in itertools.product(range(len(OPS)), repeat=3):
                c1 = Co.__new__(Co)
                Co.__init__(c1, max_size=ms)
                c2 = Real(max_size=ms)
                for step, o in enumerate(seq):
                    k, v = K((step * 2 + o) % 3), step
                    try:
                        r1 = ('ok', _norm(coro.drive(co_op(c1, OPS[o], k, v))))
                    except KeyError:
                        r1 = ('KeyError', None)
                    try:
                        r2 = ('ok', _norm(real_op(c2, OPS[o], k, v)))
                    except KeyError:
                        r2 = ('KeyError', None)
                    n += 1
                    if r1 != r2 or sorted((a.i, b) for a, b in dict.items(c1)) != sorted((a.i, b) for a, b in dict.items(c2)) \
                            or (c1.hit_count, c1.miss_count, c1.soft_miss_count) != (c2.hit_count, c2.miss_count, c2.soft_miss_count):
                        return {'verdict': 'error', 'message': 'translator self-check: transformed and original %s disagree on %r (step %d): %r vs %r' % (
                            Real.__name__, [OPS[x] for x in seq], step, r1, r2)}
                if probe_order(c1, lambda cc, k, v: coro.drive(cc.__setitem__(k, v)), ms) != probe_order(c2, lambda cc, k, v: cc.__setitem__(k, v), ms):
                    return {'verdict': 'error', 'message': 'translator self-check: eviction order differs after %r' % ([OPS[x] for x in seq],)}
    return {'verdict': 'confirmed', 'paths': n, 'completed': n, 'witness': n, 'samples': [{'sequential_steps_compared': n}]}


def obligations(tier):
    obs = []
    q = tier == 'quick'
    T = 250 if q else 1800
    obs.append(Ob('selfcheck', timeout=120, kind='direct', name='translator_selfcheck'))
    # sensitivity: with the lock removed from __setitem__ (in-memory mutant) a non-linearizable schedule must be found
    obs.append(Ob('linearizable', timeout=T, pins={'cls': 1, 'opa': 0, 'opb': 0, 'switches': 2, 'mutant': ['__setitem__']},
                  name='sensitivity[lock removed from __setitem__]', expect='counterexample', expect_clause='not_linearizable'))
    pairs = []
    for a in range(len(OPS)):
        pairs.append((0, a))
        if a:
            pairs.append((a, a))
    if not q:
        pairs = [(a, b) for a in range(len(OPS)) for b in range(a, len(OPS))]
    for (a, b) in pairs:
        obs.append(Ob('linearizable', timeout=T, pins={'cls': 1, 'opa': a, 'opb': b, 'switches': 2 if q else 3}))
        if not q or (a, b) in ((0, 0), (0, 1), (0, 3)):
            obs.append(Ob('linearizable', timeout=T, pins={'cls': 0, 'opa': a, 'opb': b, 'switches': 2 if q else 3}))
    # caches with an on_miss loader (every call returns a fresh value: a second, concurrent load is visible in the results)
    G, S, SD, GET = OPS.index('getitem'), OPS.index('setitem'), OPS.index('setdefault'), OPS.index('get')
    for (a, b) in ((G, G), (G, SD), (G, GET), (S, G)) if q else [(a, b) for a in (G, SD, GET) for b in range(len(OPS))]:
        for cls in (1, 0) if (not q or (a, b) in ((G, G), (S, G))) else (1,):
            obs.append(Ob('linearizable', timeout=T, pins={'cls': cls, 'opa': a, 'opb': b, 'switches': 2, 'onmiss': 1}))
    # two operations in program order on one thread against one on the other (three sequential orders)
    CL, POP, UPD, PI = OPS.index('clear'), OPS.index('pop'), OPS.index('update'), OPS.index('popitem')
    seqs = [(CL, S, S), (S, G, S), (POP, SD, S), (UPD, PI, OPS.index('delitem'))] if q else [(a, a2, b) for a in (CL, S, POP, UPD) for a2 in (S, G, SD, PI) for b in (S, G, GET, CL)]
    for (a, a2, b) in seqs:
        obs.append(Ob('linearizable', timeout=T, pins={'cls': 1, 'opa': a, 'opa2': a2, 'opb': b, 'switches': 2}))
    return obs

"""C19 line readers split exactly at line boundaries, for every text and block size.

Engine E1.
* iter_splitlines: the text is a symbolic str over all of Unicode (minus \\x1c-\\x1e, which
  str.splitlines also breaks on but the statement does not list); the regex scan of the
  real function runs on CrossHair's symbolic string/regex model; oracle = explicit scanner
  over the eight listed breaks.
* reverse_iter_lines / JSONLIterator: file content is assembled from solver-chosen item
  classes; for each content EVERY block size 1..len+1 is run (binary and text-mode file
  objects) and compared with the forward split.
"""
import io
import json
from boltons import strutils, jsonutils
from vf.rt import cz, pin, pinval, assume, fail, done, notrace
from vf.check import Ob

PROPERTY = 'C19'
TARGETS = ['boltons.strutils.iter_splitlines', 'boltons.jsonutils.reverse_iter_lines',
           'boltons.jsonutils.JSONLIterator.__init__', 'boltons.jsonutils.JSONLIterator.next',
           'boltons.jsonutils.JSONLIterator._init_rel_seek']
BOUNDS = {
    'quick': {'iter_splitlines_text': 'len <= 3, all Unicode except \\x1c-\\x1e', 'file_items': '<= 5 items from {\\n, \\r (so also \\r\\n, lone and doubled \\r), ASCII, 2-byte, 3-byte char}',
              'blocksize': 'every value 1..len(content)+1', 'jsonl_lines': '<= 3 from {object, array, blank, whitespace, cut-off JSON, invalid UTF-8 (binary mode)}; block edge at every offset'},
    'thorough': {'iter_splitlines_text': 'len <= 4', 'file_items': '<= 7'},
}
ASSUMPTIONS = ['line breaks per the statement: \\n \\r \\r\\n \\v \\f \\x85 \\u2028 \\u2029 (iter_splitlines); \\n and \\r\\n (reverse_iter_lines)',
               'UTF-8 files', 'an empty file has no lines']
OUT_OF_CLAIM = ['texts containing \\x1c, \\x1d, \\x1e', 'rel_seek', 'longer texts / files']
STUBS = ['files are io.BytesIO / io.TextIOWrapper(io.BytesIO) objects (real CPython file objects, in memory)']

BREAKS1 = ['\n', '\r', '\x0b', '\x0c', '\x85', ' ', ' ']


def ref_splitlines(text):
    """explicit scanner: str.splitlines + a final '' when the text ends with a break"""
    out = []
    cur = 0
    i = 0
    n = len(text)
    while i < n:
        c = text[i]
        if c == '\r' and i + 1 < n and text[i + 1] == '\n':
            out.append(text[cur:i])
            i += 2
            cur = i
            continue
        brk = False
        for b in BREAKS1:
            if c == b:
                brk = True
        if brk:
            out.append(text[cur:i])
            i += 1
            cur = i
            continue
        i += 1
    if cur < n:
        out.append(text[cur:])
    elif n > 0:
        out.append('')
    return out


def splitlines_law(text: str) -> bool:
    """
    pre: len(text) <= 4
    post: _
    """
    n = len(text)
    assume(n <= pinval('lmax', 2))
    assume(n >= pinval('lmin', 0))
    for i in range(n):
        c = text[i]
        assume(not ('\x1c' <= c <= '\x1e'))
    cls = pinval('first')
    if cls is not None and n:
        c = text[0]
        isbrk = (c == '\n' or c == '\r' or c == '\x0b' or c == '\x0c' or c == '\x85' or c == ' ' or c == ' ')
        assume(isbrk == (cls == 1))
    cls2 = pinval('second')
    if cls2 is not None and n > 1:
        c = text[1]
        isbrk = (c == '\n' or c == '\r' or c == '\x0b' or c == '\x0c' or c == '\x85' or c == '\u2028' or c == '\u2029')
        assume(isbrk == (cls2 == 1))
    cls3 = pinval('third')
    if cls3 is not None and n > 2:
        c = text[2]
        isbrk = (c == '\n' or c == '\r' or c == '\x0b' or c == '\x0c' or c == '\x85' or c == '\u2028' or c == '\u2029')
        assume(isbrk == (cls3 == 1))
    got = list(strutils.iter_splitlines(text))
    exp = ref_splitlines(text)
    if len(got) != len(exp):
        return fail('splitlines_count', '%r: %r vs %r' % (text, got, exp))
    for a, b in zip(got, exp):
        if a != b:
            return fail('splitlines_piece', '%r: %r vs %r' % (text, got, exp))
    return done(n > 0, kind='nonempty', n=n)


# ------------------------------------------------------------------ reverse_iter_lines
ITEMS = ['\n', '\r', 'a', '\xe9', '€']         # '\r\n' arises from the two classes in sequence; a '\r' not followed by '\n' is content


def _rev_body(classes):
    text = ''.join(ITEMS[c] for c in classes)
    data = text.encode('utf-8')
    if not data:
        exp_b = []
    else:
        segs = data.split(b'\n')
        # every segment but the last was terminated by '\n': a '\r' directly before it is part of the break
        exp_b = ([ln[:-1] if ln.endswith(b'\r') else ln for ln in segs[:-1]] + segs[-1:])[::-1]
    exp_t = [b.decode('utf-8') for b in exp_b]
    multi = any(c in (3, 4) for c in classes)
    for bs in range(1, len(data) + 2):
        got = list(jsonutils.reverse_iter_lines(io.BytesIO(data), blocksize=bs))
        if got != exp_b:
            return fail('reverse_lines_bytes', 'content=%r blocksize=%d: %r expected %r' % (data, bs, got, exp_b))
        fo = io.TextIOWrapper(io.BytesIO(data), encoding='utf-8', newline='')
        got = list(jsonutils.reverse_iter_lines(fo, blocksize=bs))
        if got != exp_t:
            return fail('reverse_lines_text', 'content=%r blocksize=%d: %r expected %r' % (text, bs, got, exp_t))
    return done(True, kind='multibyte' if multi else 'ascii', content=text)


def reverse_lines_law(n: int, c0: int, c1: int, c2: int, c3: int, c4: int, c5: int, c6: int) -> bool:
    """
    pre: 0 <= n <= 7
    post: _
    """
    n = cz(n, pinval('nmin', 0), pinval('nmax', 5))
    cs = [c0, c1, c2, c3, c4, c5, c6][:n]
    classes = []
    for idx, c in enumerate(cs):
        if idx == 0 and pinval('first') is not None:
            classes.append(pinval('first'))
        else:
            classes.append(cz(c, 0, 4))
    with notrace():
        return _rev_body(classes)


# ------------------------------------------------------------------ JSONLIterator
LINES = ['{"a": %d}', '', '   ', '{"a": ', '[1, %d]', '{"b": "\udcc3']     # the last one is written as the lone byte 0xC3: not UTF-8 (binary mode only)


def _jsonl_body(classes, trailing_nl, crlf):
    nl = '\r\n' if crlf else '\n'
    lines = [(LINES[c] % i) if '%d' in LINES[c] else LINES[c] for i, c in enumerate(classes)]
    text = nl.join(lines) + (nl if trailing_nl and lines else '')
    exp_strict_ok = not any(c in (3, 5) for c in classes)
    bad_utf8 = any(c == 5 for c in classes)
    exp = []
    for i, c in enumerate(classes):
        if c == 0:
            exp.append({'a': i})
        elif c == 4:
            exp.append([1, i])
    base = text.encode('utf-8', 'surrogateescape')
    # pad in front with JSON whitespace so that the fixed 4096-byte block edge of the reverse reader
    # falls at every offset inside and between the lines
    pads = [0] + list(range(max(4096 - len(base) - 1, 0), 4096 + 2)) if pinval('edges', 1) else [0]
    for pad in pads:
        data = b' ' * pad + base
        for mode in ('bytes',) if bad_utf8 else ('bytes', 'text'):
            def mk():
                if mode == 'bytes':
                    return io.BytesIO(data)
                return io.TextIOWrapper(io.BytesIO(data), encoding='utf-8')
            if exp_strict_ok:
                fwd = list(jsonutils.JSONLIterator(mk()))
                rev = list(jsonutils.JSONLIterator(mk(), reverse=True))
                if fwd != exp:
                    return fail('jsonl_forward', 'text=%r pad=%d mode=%s: %r' % (text, pad, mode, fwd))
                if rev != exp[::-1]:
                    return fail('jsonl_reverse', 'text=%r pad=%d mode=%s: %r expected %r' % (text, pad, mode, rev, exp[::-1]))
            fwd = list(jsonutils.JSONLIterator(mk(), ignore_errors=True))
            rev = list(jsonutils.JSONLIterator(mk(), ignore_errors=True, reverse=True))
            if fwd != exp:
                return fail('jsonl_forward_ignore_errors', 'text=%r pad=%d mode=%s: %r' % (text, pad, mode, fwd))
            if rev != exp[::-1]:
                return fail('jsonl_reverse_ignore_errors', 'text=%r pad=%d mode=%s: %r' % (text, pad, mode, rev))
            if not exp_strict_ok:
                for rv in (False, True):
                    try:
                        list(jsonutils.JSONLIterator(mk(), reverse=rv))
                        return fail('jsonl_corrupt_line_no_error')
                    except ValueError:
                        pass
    return done(True, kind='corrupt' if not exp_strict_ok else 'clean', lines=lines)


def jsonl_law(n: int, c0: int, c1: int, c2: int, c3: int, trailing_nl: int, crlf: int) -> bool:
    """
    pre: 0 <= n <= 4
    post: _
    """
    n = cz(n, 0, pinval('nmax', 3))
    classes = [cz(c, 0, 5) for c in [c0, c1, c2, c3][:n]]
    trailing_nl = cz(trailing_nl, 0, 1)
    crlf = pin('crlf', crlf, 0, 1)
    with notrace():
        return _jsonl_body(classes, trailing_nl, crlf)


def obligations(tier):
    obs = []
    q = tier == 'quick'
    T = 170 if q else 1500
    if q:
        obs.append(Ob('splitlines_law', timeout=T, pins={'lmin': 0, 'lmax': 1}))
        obs.append(Ob('splitlines_law', timeout=T, pins={'lmin': 2, 'lmax': 2, 'first': 1}))
        obs.append(Ob('splitlines_law', timeout=T, pins={'lmin': 2, 'lmax': 2, 'first': 0}))
        for first in (0, 1):
            for second in (0, 1):
                if first and second:
                    for third in (0, 1):
                        obs.append(Ob('splitlines_law', timeout=T, pins={'lmin': 3, 'lmax': 3, 'first': 1, 'second': 1, 'third': third}))
                else:
                    obs.append(Ob('splitlines_law', timeout=T, pins={'lmin': 3, 'lmax': 3, 'first': first, 'second': second}))
    else:
        obs.append(Ob('splitlines_law', timeout=T, pins={'lmin': 0, 'lmax': 2}))
        for first in (0, 1):
            obs.append(Ob('splitlines_law', timeout=T, pins={'lmin': 3, 'lmax': 3, 'first': first}))
            obs.append(Ob('splitlines_law', timeout=T, pins={'lmin': 4, 'lmax': 4, 'first': first}))
    for first in range(5):
        obs.append(Ob('reverse_lines_law', timeout=T, pins={'first': first, 'nmin': 1, 'nmax': 5 if q else 7}))
    obs.append(Ob('reverse_lines_law', timeout=T, pins={'nmin': 0, 'nmax': 0}, min_witness=1))
    for crlf in (0, 1):
        obs.append(Ob('jsonl_law', timeout=T, pins={'crlf': crlf, 'nmax': 3 if q else 4, 'edges': 1 if crlf == 0 else 0}))
    return obs

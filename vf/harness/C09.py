"""C09 chunking / windowing / splitting / grouping helpers conserve elements and order.

Engine E1.  chunk_ranges is pure integer arithmetic and is executed on symbolic ints
(offset unbounded above); the sequence helpers are driven with solver-chosen lengths,
element class patterns ({separator, other, None}), sizes, counts, maxsplit values and
key-equality patterns, each an exhaustively forked branch.  Oracles: str.split /
str.strip on the corresponding character string, list slicing, first-occurrence scans.
"""
import itertools
from boltons import iterutils as iu
from vf.rt import K, cz, pin, pinval, assume, fail, done, notrace, labels
from vf.check import Ob

PROPERTY = 'C09'
_M = 'boltons.iterutils.'
TARGETS = [_M + m for m in ('chunked_iter', 'chunked', 'windowed_iter', 'windowed', 'pairwise_iter', 'pairwise',
                            'split_iter', 'split', 'lstrip_iter', 'lstrip', 'rstrip_iter', 'rstrip', 'strip_iter',
                            'strip', 'chunk_ranges', 'unique_iter', 'unique', 'redundant', 'bucketize', 'partition',
                            '_validate_positive_int')]
BOUNDS = {
    'quick': {'sequence_length': '0..5', 'chunk/window size': '1..6', 'maxsplit': 'None, 0..3',
              'chunk_ranges': 'input_size 0..8, chunk_size 1..4, overlap 0..chunk_size-1, input_offset >= 0 unbounded (symbolic), align both'},
    'thorough': {'sequence_length': '0..7', 'chunk_ranges': 'input_size 0..14, chunk_size 1..6'},
}
ASSUMPTIONS = ['elements compare with ==; keys are hashable', 'overlap_size < chunk_size (otherwise chunk_ranges does not terminate by design)',
               'str.split / str.strip on the character string obtained by mapping separators to one character and every other element to a private character is the reference']
OUT_OF_CLAIM = ['longer sequences', 'elements with exotic __eq__', 'chunk_ranges with more chunks than the bound']
STUBS = []

FORMS = ['list', 'tuple', 'iter']


def as_form(form, seq):
    if form == 0:
        return list(seq)
    if form == 1:
        return tuple(seq)
    return iter(list(seq))


# ------------------------------------------------------------------ chunked
def _chunked_body(n, size, count, fill, form, kind):
    src = list(range(100, 100 + n))
    if kind == 1:
        src_obj, conv = ''.join(chr(97 + i) for i in range(n)), (lambda c: c)
        src = list(src_obj)
    elif kind == 2:
        src_obj = bytes(range(65, 65 + n))
        src = list(src_obj)
    else:
        src_obj = as_form(form, src)
    kw = {}
    if fill:
        kw['fill'] = None if kind == 0 else (None)
        if kind != 0:
            return done(False)           # fill with str/bytes sources is not part of the statement
    got = iu.chunked(src_obj, size, count, **kw) if count is not None else iu.chunked(src_obj, size, **kw)
    src_obj2 = as_form(form, src) if kind == 0 else src_obj
    got_iter = list(iu.chunked_iter(src_obj2, size, **kw))
    if count is not None:
        got_iter = got_iter[:count]
    if kind == 1:
        norm = [list(c) for c in got]
        if any(type(c) is not str for c in got):
            return fail('chunked_str_type')
    elif kind == 2:
        norm = [list(c) for c in got]
        if any(type(c) is not bytes for c in got):
            return fail('chunked_bytes_type')
    else:
        norm = [list(c) for c in got]
        if any(type(c) is not list for c in got):
            return fail('chunked_list_type')
    if [list(c) for c in got_iter] != norm:
        return fail('chunked_iter_differs')
    full = (n + size - 1) // size
    exp_chunks = full if count is None else min(full, count)
    if len(norm) != exp_chunks:
        return fail('chunked_number_of_chunks', 'n=%d size=%d count=%r got %d' % (n, size, count, len(norm)))
    flat = [x for c in norm for x in c]
    exp_flat = src[:exp_chunks * size]
    if fill and exp_chunks == full and n % size and full:
        exp_flat = exp_flat + [None] * (size - n % size)
    if flat != exp_flat:
        return fail('chunked_concatenation', '%r vs %r' % (flat, exp_flat))
    for idx, c in enumerate(norm):
        last = idx == full - 1
        if len(c) != size and not (last and not fill and len(c) == n - size * (full - 1)):
            return fail('chunked_chunk_size')
    return done(True, kind='short_last' if n % size else 'exact', n=n, size=size, count=count, fill=fill)


def chunked_law(n: int, size: int, count: int, fill: int, form: int, kind: int) -> bool:
    """
    pre: 0 <= n <= 7 and 1 <= size <= 8 and -1 <= count <= 4
    post: _
    """
    n = cz(n, 0, pinval('nmax', 5))
    size = cz(size, 1, pinval('nmax', 5) + 1)
    count = cz(count, -1, 3)
    fill = cz(fill, 0, 1)
    form = cz(form, 0, 2)
    kind = pin('kind', kind, 0, 2)
    with notrace():
        return _chunked_body(n, size, None if count < 0 else count, fill, form, kind)


# ------------------------------------------------------------------ windowed / pairwise
def _windowed_body(n, size, fill, form):
    src = list(range(100, 100 + n))
    if fill:
        got = iu.windowed(as_form(form, src), size, fill='F')
        got_i = list(iu.windowed_iter(as_form(form, src), size, fill='F'))
        exp = [tuple((src + ['F'] * size)[i:i + size]) for i in range(n)]
    else:
        got = iu.windowed(as_form(form, src), size)
        got_i = list(iu.windowed_iter(as_form(form, src), size))
        exp = [tuple(src[i:i + size]) for i in range(n - size + 1)]
    if got != exp:
        return fail('windowed', 'n=%d size=%d fill=%d: %r' % (n, size, fill, got))
    if got_i != exp:
        return fail('windowed_iter')
    if size == 2:
        if fill:
            p, pi = iu.pairwise(as_form(form, src), end='F'), list(iu.pairwise_iter(as_form(form, src), end='F'))
        else:
            p, pi = iu.pairwise(as_form(form, src)), list(iu.pairwise_iter(as_form(form, src)))
        if p != exp or pi != exp:
            return fail('pairwise')
    return done(True, kind='short' if n < size else 'windows', n=n, size=size, fill=fill)


def windowed_law(n: int, size: int, fill: int, form: int) -> bool:
    """
    pre: 0 <= n <= 7 and 1 <= size <= 5
    post: _
    """
    n = cz(n, 0, pinval('nmax', 5))
    size = cz(size, 1, 4)
    fill = cz(fill, 0, 1)
    form = cz(form, 0, 2)
    with notrace():
        return _windowed_body(n, size, fill, form)


# ------------------------------------------------------------------ split / strip
SEPKINDS = ['none', 'scalar', 'collection', 'callable']


def _encode(classes, sepchar):
    """character string corresponding to the element class pattern"""
    return ''.join(sepchar if c == 0 else chr(0x100 + i) for i, c in enumerate(classes))


def _decode(strs, elems):
    return [[elems[ord(ch) - 0x100] if ord(ch) >= 0x100 else None for ch in s] for s in strs]


def _split_body(classes, sepkind, maxsplit, form):
    n = len(classes)
    kindname = SEPKINDS[sepkind]
    if kindname == 'none':
        sepval = None
        elems = [None if c == 0 else 100 + i for i, c in enumerate(classes)]
        s = _encode(classes, ' ')
        exp_s = s.split(None, -1 if maxsplit is None else maxsplit)
    else:
        sepval = ','
        elems = [(',' if (kindname == 'scalar' or i % 2) else ';') if c == 0 else (None if c == 2 else 100 + i)
                 for i, c in enumerate(classes)]
        s = _encode(classes, ',')
        exp_s = s.split(',', -1 if maxsplit is None else maxsplit)
    # expected element groups: map characters back (separator characters inside a kept remainder map to the
    # original separator elements at those positions)
    exp = []
    pos = 0
    for piece in exp_s:
        if kindname == 'none':
            start = s.index(piece, pos)          # pieces start with a unique non-blank character
            exp.append(elems[start:start + len(piece)])
            pos = start + len(piece)
        else:
            exp.append(elems[pos:pos + len(piece)])   # pieces are consecutive, one separator between them
            pos += len(piece) + 1
    if kindname == 'scalar':
        sep = ','
    elif kindname == 'collection':
        sep = [',', ';']
    elif kindname == 'callable':
        sep = lambda x: x in (',', ';')
    else:
        sep = None
    args = (sep,) if maxsplit is None else (sep, maxsplit)
    got = iu.split(as_form(form, elems), *args)
    got_i = list(iu.split_iter(as_form(form, elems), *args))
    norm = [list(g) for g in got]
    if norm != exp:
        return fail('split_vs_str_split', 'elems=%r sep=%s maxsplit=%r: got %r expected %r' % (elems, kindname, maxsplit, got, exp))
    if [list(g) for g in got_i] != exp:
        return fail('split_iter_differs')
    return done(True, kind='has_sep' if 0 in classes else 'no_sep', n=n, sep=kindname, maxsplit=maxsplit)


def split_law(n: int, c0: int, c1: int, c2: int, c3: int, c4: int, c5: int, sepkind: int, maxsplit: int, form: int) -> bool:
    """
    pre: 0 <= n <= 6
    post: _
    """
    sepkind = pin('sepkind', sepkind, 0, 3)
    maxsplit = pin('maxsplit', maxsplit, -1, 3)
    n = cz(n, 0, pinval('nmax', 5))
    ncls = 2 if sepkind == 0 else 3           # with sep=None the None elements ARE the separators
    classes = [cz(c, 0, ncls - 1) for c in [c0, c1, c2, c3, c4, c5][:n]]
    form = cz(form, 0, 2)
    with notrace():
        return _split_body(classes, sepkind, None if maxsplit < 0 else maxsplit, form)


def _strip_body(classes, use_none, form):
    sv = None if use_none else 0
    elems = [sv if c == 0 else 100 + i for i, c in enumerate(classes)]
    s = _encode(classes, ' ')
    for name, fn, fni, sfn in (('lstrip', iu.lstrip, iu.lstrip_iter, str.lstrip), ('rstrip', iu.rstrip, iu.rstrip_iter, str.rstrip),
                               ('strip', iu.strip, iu.strip_iter, str.strip)):
        exp_s = sfn(s, ' ')
        start = s.index(exp_s) if exp_s else 0
        exp = elems[start:start + len(exp_s)]
        a = (as_form(form, elems),) if use_none else (as_form(form, elems), sv)
        got = fn(*a)
        a = (as_form(form, elems),) if use_none else (as_form(form, elems), sv)
        got_i = list(fni(*a))
        if got != exp:
            return fail(name + '_vs_str', 'elems=%r got %r expected %r' % (elems, got, exp))
        if got_i != exp:
            return fail(name + '_iter_differs')
    return done(True, kind='has_strip_value' if 0 in classes else 'plain', n=len(classes))


def strip_law(n: int, c0: int, c1: int, c2: int, c3: int, c4: int, c5: int, use_none: int, form: int) -> bool:
    """
    pre: 0 <= n <= 6
    post: _
    """
    n = cz(n, 0, pinval('nmax', 5))
    classes = [cz(c, 0, 1) for c in [c0, c1, c2, c3, c4, c5][:n]]
    use_none = cz(use_none, 0, 1)
    form = cz(form, 0, 2)
    with notrace():
        return _strip_body(classes, use_none, form)


# ------------------------------------------------------------------ unique / redundant / bucketize / partition
PLAIN = [None, 0, '', (), 1, 'x', (0,), 2.5]       # pairwise different values for the key labels; None and falsy ones first
def _group_body(ks, keymode, form):
    n = len(ks)
    elems = [(ks[i], i) for i in range(n)]         # element = (key label, position): distinct elements, repeated keys
    if keymode == 0:
        keyf = lambda e: e[0]
    else:
        keyf = lambda e: e[0] % 2
    keys = [keyf(e) for e in elems]
    # unique: first occurrence of each key, in order
    exp_u = [e for i, e in enumerate(elems) if keys[i] not in keys[:i]]
    if iu.unique(as_form(form, elems), keyf) != exp_u or list(iu.unique_iter(as_form(form, elems), keyf)) != exp_u:
        return fail('unique')
    if keymode == 0:
        plain = [k for k in ks]
        exp_pu = [k for i, k in enumerate(plain) if k not in plain[:i]]
        if iu.unique(as_form(form, plain)) != exp_pu:
            return fail('unique_default_key')
    # redundant: keys seen more than once; default returns the second occurrence per key in order of detection
    order = []
    for i, k in enumerate(keys):
        if keys[:i].count(k) == 1:
            order.append(k)
    exp_r = [[e for e in elems if keyf(e) == k][1] for k in order]
    exp_g = [[e for e in elems if keyf(e) == k] for k in order]
    if iu.redundant(as_form(form, elems), keyf) != exp_r:
        return fail('redundant')
    if iu.redundant(as_form(form, elems), keyf, groups=True) != exp_g:
        return fail('redundant_groups')
    # bucketize: every element in exactly one bucket, input order inside buckets, key order by first appearance
    b = iu.bucketize(as_form(form, elems), keyf)
    exp_b = {}
    for e in elems:
        exp_b.setdefault(keyf(e), []).append(e)
    if b != exp_b or list(b) != list(exp_b):
        return fail('bucketize')
    t, f = iu.partition(as_form(form, elems), lambda e: e[0] == 0)
    if t != [e for e in elems if e[0] == 0] or f != [e for e in elems if e[0] != 0]:
        return fail('partition')
    bl = iu.bucketize(list(elems), key=[keyf(e) for e in elems])
    if bl != exp_b:
        return fail('bucketize_key_list')
    # the same helpers on plain values with their default keys; the values include None and other falsy objects
    pv = [PLAIN[k] for k in ks]
    first = [v for i, v in enumerate(pv) if v not in pv[:i]]
    if iu.unique(as_form(form, pv)) != first or list(iu.unique_iter(as_form(form, pv))) != first:
        return fail('unique_plain_values', repr(pv))
    order = [v for i, v in enumerate(pv) if pv[:i].count(v) == 1]
    if iu.redundant(as_form(form, pv)) != order:
        return fail('redundant_plain_values', '%r: %r expected %r' % (pv, iu.redundant(list(pv)), order))
    exp_pg = [[w for w in pv if w == v] for v in order]
    if iu.redundant(as_form(form, pv), groups=True) != exp_pg:
        return fail('redundant_groups_plain_values', repr(pv))
    exp_pb = {}
    for v in pv:
        exp_pb.setdefault(bool(v), []).append(v)
    if iu.bucketize(as_form(form, pv)) != exp_pb:
        return fail('bucketize_default_key', repr(pv))
    if iu.partition(as_form(form, pv)) != ([v for v in pv if v], [v for v in pv if not v]):
        return fail('partition_default_key', repr(pv))
    return done(True, kind='repeats' if len(set(keys)) < n else 'distinct', n=n, keymode=keymode)


def group_law(n: int, a0: int, a1: int, a2: int, a3: int, a4: int, a5: int, keymode: int, form: int) -> bool:
    """
    pre: 0 <= n <= 6
    post: _
    """
    n = cz(n, 0, pinval('nmax', 5))
    ks = labels([a0, a1, a2, a3, a4, a5][:n])
    keymode = cz(keymode, 0, 1)
    form = cz(form, 0, 2)
    with notrace():
        return _group_body(ks, keymode, form)


# ------------------------------------------------------------------ chunk_ranges (symbolic integers)
def chunk_ranges_law(input_size: int, chunk_size: int, input_offset: int, overlap_size: int, align: bool) -> bool:
    """
    pre: 0 <= input_size <= 14 and 1 <= chunk_size <= 6 and 0 <= input_offset and 0 <= overlap_size < chunk_size
    post: _
    """
    assume(input_size <= pinval('smax', 8))
    assume(chunk_size <= pinval('cmax', 4))
    align = pin('align', 1 if align else 0, 0, 1) == 1
    res = []
    nmax = pinval('smax', 8) + 3
    for r in iu.chunk_ranges(input_size, chunk_size, input_offset, overlap_size, align):
        res.append(r)
        if len(res) > nmax:
            return fail('chunk_ranges_too_many_chunks')
    stop = input_offset + input_size
    step = chunk_size - overlap_size
    if input_size == 0:
        for b, e in res:
            if not (b == input_offset and e == input_offset):
                return fail('chunk_ranges_empty_input')
        return done(False)
    if len(res) == 0:
        return fail('chunk_ranges_no_chunks')
    if res[0][0] != input_offset:
        return fail('chunk_ranges_first_begin')
    if res[-1][1] != stop:
        return fail('chunk_ranges_last_end')
    prev = None
    for idx, (b, e) in enumerate(res):
        if not (b < e):
            return fail('chunk_ranges_empty_chunk')
        if e - b > chunk_size:
            return fail('chunk_ranges_chunk_too_long')
        if prev is not None and b != prev - overlap_size:
            return fail('chunk_ranges_overlap')
        if align and idx >= 1 and b % step != 0:
            return fail('chunk_ranges_alignment')
        if idx < len(res) - 1 and e >= stop:
            return fail('chunk_ranges_chunk_after_end')
        if not align and idx < len(res) - 1 and e - b != chunk_size:
            return fail('chunk_ranges_short_inner_chunk')
        prev = e
    # coverage of every index follows from first begin, last end and begin <= previous end; checked directly too
    x = input_offset
    for b, e in res:
        if b > x:
            return fail('chunk_ranges_gap')
        if e > x:
            x = e
    if x != stop:
        return fail('chunk_ranges_coverage')
    return done(True, kind='several' if len(res) > 1 else 'one', chunks=len(res), align=align)


def obligations(tier):
    obs = []
    q = tier == 'quick'
    T = 170 if q else 1500
    nmax = 5 if q else 7
    for kind in (0, 1, 2):
        obs.append(Ob('chunked_law', timeout=T, pins={'kind': kind, 'nmax': nmax}, need_kinds=('short_last', 'exact')))
    obs.append(Ob('windowed_law', timeout=T, pins={'nmax': nmax}, need_kinds=('short', 'windows')))
    for sepkind in range(4):
        for maxsplit in (-1, 0, 1, 2, 3):
            obs.append(Ob('split_law', timeout=T, pins={'sepkind': sepkind, 'maxsplit': maxsplit, 'nmax': nmax if sepkind == 0 else nmax - 1},
                          need_kinds=('has_sep',)))
    obs.append(Ob('strip_law', timeout=T, pins={'nmax': nmax + 1 if q else nmax}, need_kinds=('has_strip_value',)))
    obs.append(Ob('group_law', timeout=T, pins={'nmax': nmax}, need_kinds=('repeats',)))
    for align in (0, 1):
        for cmax in ((2, 4) if q else (2, 4, 6)):
            obs.append(Ob('chunk_ranges_law', timeout=T, pins={'align': align, 'smax': 8 if q else 14, 'cmax': cmax, 'cmin': cmax - 1},
                          need_kinds=('several',)))
    return obs

"""C08 remap rebuilds nested data exactly as a recursive map would.

Engine E1.  The SHAPE is solver-chosen: node kinds (leaf, list, dict, tuple, set, frozenset),
the parent of every node, one extra alias edge (a second reference to an earlier or later node,
including back edges to ancestors = cycles through mutable containers) and the visit program
(a decision table cell and its action); every choice is an exhaustively forked branch.
Oracle: bottom-up recursive rebuild with an id-keyed memo applying the same visit function.
"""
from boltons.iterutils import remap, research, get_path
from vf.rt import cz, pin, pinval, assume, fail, done, notrace
from vf.check import Ob

PROPERTY = 'C08'
TARGETS = ['boltons.iterutils.remap', 'boltons.iterutils.default_enter', 'boltons.iterutils.default_visit',
           'boltons.iterutils.default_exit', 'boltons.iterutils.get_path', 'boltons.iterutils.research']
BOUNDS = {
    'quick': {'nodes': '<= 4 without alias edge, <= 3 with one alias/cycle edge', 'kinds': 'leaf, list, dict, tuple, set, frozenset',
              'visit': 'keep-all, and a one-cell decision table over (depth 0 / deeper) x (leaf, mutable container, immutable container) with actions keep / drop / replace / rename key'},
    'thorough': {'nodes': '<= 5 without, <= 4 with alias edge'},
}
ASSUMPTIONS = ['leaves are distinct int tokens', 'cycles only through mutable containers (list, dict)', 'visit functions do not mutate their arguments']
OUT_OF_CLAIM = ['user-defined container classes, custom enter/exit', 'more nodes / more than one alias edge',
                'research()/get_path through sets (sets are not indexable)', 'cycles that pass through a tuple or frozenset']
STUBS = []

LEAF, LIST, DICT, TUPLE, SET, FSET = range(6)
MUTABLE = (LIST, DICT, SET)
HASHABLE_KINDS = (LEAF, TUPLE, FSET)


ODD_KEYS = [None, 0, ('t', 1), 'k', 2.5, False]


def build(kinds, parents, alias, keystyle=0):
    """returns (root, objs) or None if the combination is not constructible"""
    n = len(kinds)
    children = [[] for _ in range(n)]
    for i in range(1, n):
        children[parents[i]].append(i)
    # hashability of every node (bottom-up), needed for set members
    hashable = [False] * n
    for i in range(n - 1, -1, -1):
        k = kinds[i]
        if k == LEAF:
            hashable[i] = True
        elif k in (TUPLE, FSET):
            hashable[i] = all(hashable[c] for c in children[i])
    late = None          # alias edge added by mutation after construction
    early = None         # alias edge included at construction time
    if alias is not None:
        f, t = alias
        if kinds[f] == LEAF:
            return None
        if t > f and not _is_ancestor(parents, t, f):
            early = (f, t)
        else:
            if kinds[f] not in MUTABLE:
                return None
            if _is_ancestor(parents, t, f) or t == f:
                if kinds[f] not in (LIST, DICT):
                    return None          # cycles only through list/dict
                # every node on the way from t down to f must be mutable list/dict too (a tuple cannot sit on a cycle)
                x = f
                while x != t:
                    if kinds[x] not in (LIST, DICT):
                        return None
                    x = parents[x]
                if kinds[t] not in (LIST, DICT):
                    return None
            late = (f, t)
    if early is not None:
        # an alias member built in at construction time counts for the hashability of its holder (and of the holders above)
        for i in range(n - 1, -1, -1):
            if kinds[i] in (TUPLE, FSET):
                hashable[i] = all(hashable[c] for c in children[i]) and (early[0] != i or hashable[early[1]])
    for i in range(n):
        if kinds[i] in (SET, FSET):
            for c in children[i]:
                if not hashable[c]:
                    return None
            for e in (early, late):
                if e is not None and e[0] == i and not hashable[e[1]]:
                    return None
        if kinds[i] == LEAF and children[i]:
            return None
    objs = [None] * n
    for i in range(n - 1, -1, -1):
        k = kinds[i]
        members = [(c, objs[c]) for c in children[i]]
        if early is not None and early[0] == i:
            members.append(('alias', objs[early[1]]))
        if k == LEAF:
            objs[i] = 10 + i
        elif k == LIST:
            objs[i] = [o for _, o in members]
        elif k == DICT:
            if keystyle:
                objs[i] = {ODD_KEYS[pos]: o for pos, (tag, o) in enumerate(members)}
            else:
                objs[i] = {'k%s' % tag: o for tag, o in members}
        elif k == TUPLE:
            objs[i] = tuple(o for _, o in members)
        elif k == SET:
            objs[i] = set(o for _, o in members)
        else:
            objs[i] = frozenset(o for _, o in members)
    if late is not None:
        f, t = late
        if kinds[f] == LIST:
            objs[f].append(objs[t])
        elif kinds[f] == DICT:
            objs[f]['kalias'] = objs[t]
        else:
            objs[f].add(objs[t])
    return objs[0], objs


def _is_ancestor(parents, a, x):
    """is a an ancestor of x (or x itself)"""
    while True:
        if x == a:
            return True
        if x == 0:
            return False
        x = parents[x]


def items_of(x):
    if isinstance(x, dict):
        return list(x.items())
    return list(enumerate(x))


def is_container(x):
    return isinstance(x, (list, dict, tuple, set, frozenset))


def shape(x, seen=None):
    """structure up to identity: shared/back references are numbered by first visit; sets in canonical order"""
    seen = {} if seen is None else seen
    if not is_container(x):
        return ('leaf', x)
    if id(x) in seen:
        return ('ref', seen[id(x)])
    seen[id(x)] = len(seen)
    name = type(x).__name__
    if isinstance(x, dict):
        return (name, [(k, shape(v, seen)) for k, v in x.items()])
    if isinstance(x, (set, frozenset)):
        return (name, sorted((shape(v, {}) for v in x), key=repr))
    return (name, [shape(v, seen) for v in x])


def rebuild(x, path, memo, visit, counts):
    """the straightforward recursive rebuild (oracle)"""
    if not is_container(x):
        return x
    if id(x) in memo:
        return memo[id(x)]
    counts[id(x)] = counts.get(id(x), 0) + 1
    if isinstance(x, (list, dict, set)):
        new = type(x)()
        memo[id(x)] = new
    new_items = []
    for k, v in items_of(x):
        nv = rebuild(v, path + (k,), memo, visit, counts)
        r = visit(path, k, nv) if visit is not None else True
        if r is False:
            continue
        if r is True:
            r = (k, nv)
        new_items.append(r)
    if isinstance(x, dict):
        new.update(new_items)
    elif isinstance(x, list):
        new.extend(v for _, v in new_items)
    elif isinstance(x, set):
        new.update(v for _, v in new_items)
    else:
        new = type(x)(v for _, v in new_items)
        memo[id(x)] = new
    return new


def make_visit(cell, action):
    """decision table with one active cell: (depth class 0/1) x (leaf, mutable container, immutable container)"""
    def visit(path, key, value):
        dcls = 0 if len(path) == 0 else 1
        if not is_container(value):
            vcls = 0
        elif isinstance(value, (list, dict, set)):
            vcls = 1
        else:
            vcls = 2
        if dcls * 3 + vcls != cell:
            return True
        if action == 0:
            return True
        if action == 1:
            return False
        if action == 2:
            return (key, value + 100) if vcls == 0 else (key, 'R%d' % len(path))
        return (('K%s' % (key,)) if isinstance(key, str) else key, value)
    return visit


def mutable_ids(x, acc=None):
    acc = {} if acc is None else acc
    if is_container(x) and id(x) not in acc:
        acc[id(x)] = x
        for _, v in items_of(x):
            mutable_ids(v, acc)
    return acc


def _body(kinds, parents, alias, cell, action, keystyle=0):
    b = build(kinds, parents, alias, keystyle)
    if b is None:
        return None
    root, objs = b
    before = shape(root)
    visit = None if cell is None else make_visit(cell, action)
    set_under_action = False
    try:
        if visit is None:
            out = remap(root)
        else:
            out = remap(root, visit=visit)
        err = None
    except TypeError as e:
        err = e                       # e.g. an unhashable replacement inside a set: the oracle must fail the same way
        out = None
    try:
        exp = rebuild(root, (), {}, visit, {})
        eerr = None
    except TypeError as e:
        eerr = e
        exp = None
    if (err is None) != (eerr is None):
        return fail('exception_mismatch', 'kinds=%r parents=%r alias=%r cell=%r action=%r: remap %r oracle %r' % (kinds, parents, alias, cell, action, err, eerr))
    if shape(root) != before:
        return fail('input_mutated', 'kinds=%r parents=%r alias=%r' % (kinds, parents, alias))
    if err is not None:
        return done(True, kind='raises')
    if shape(out) != shape(exp):
        return fail('result_differs_from_recursive_rebuild', 'kinds=%r parents=%r alias=%r cell=%r action=%r: %r expected %r' % (
            kinds, parents, alias, cell, action, shape(out), shape(exp)))
    if visit is None:
        if shape(out) != before:
            return fail('default_remap_not_equal_copy')
        ins = mutable_ids(root)
        for i, o in mutable_ids(out).items():
            if i in ins and isinstance(o, (list, dict, set)):
                return fail('mutable_container_shared_with_input', 'kinds=%r parents=%r alias=%r' % (kinds, parents, alias))
        # every (path, value) reported by research is retrievable (no sets on the way: they are not indexable)
        if not any(k in (SET, FSET) for k in kinds):
            for path, value in research(root):
                if path == (None,) and value is root:
                    continue              # the root itself is not a nested item
                try:
                    got = get_path(root, path)
                except Exception as e:
                    return fail('research_path_not_retrievable', 'path=%r: %r' % (path, e))
                if got is not value:
                    return fail('research_path_wrong_value', 'path=%r' % (path,))
            n_items = 0
            for o in mutable_ids(root).values():
                n_items += len(items_of(o))
            if len(research(root)) < len({id(o) for o in mutable_ids(root).values()}) - 1:
                return fail('research_missed_items')
    kind = 'alias' if alias is not None else 'tree'
    if alias is not None and (alias[1] <= alias[0]) and _is_ancestor(parents, alias[1], alias[0]):
        kind = 'cycle'
    return done(True, kind=kind, kinds=kinds, parents=parents, alias=alias, cell=cell, action=action)


def remap_law(n: int, k0: int, k1: int, k2: int, k3: int, k4: int, p2: int, p3: int, p4: int,
              has_alias: int, af: int, at: int, cell: int, action: int) -> bool:
    """
    pre: 1 <= n <= 5
    post: _
    """
    n = cz(n, pinval('nmin', 1), pinval('nmax', 4))
    root_kind = pin('root', k0, 1, 5)
    kinds = [root_kind] + [(pin('k1', k, 0, 5) if (idx == 0 and pinval('k1') is not None) else cz(k, 0, 5))
                           for idx, k in enumerate([k1, k2, k3, k4][:n - 1])]
    parents = ([0, 0] + [cz(p, 0, i + 1) for i, p in enumerate([p2, p3, p4][:max(n - 2, 0)])])[:n]
    alias = None
    if pinval('alias', 0):
        has_alias = cz(has_alias, 0, 1)
        if has_alias:
            alias = (cz(af, 0, n - 1), cz(at, 0, n - 1))
    keystyle = pinval('keystyle', 0)          # 0: string keys, 1: None / int / tuple / float / bool keys
    if keystyle and DICT not in kinds:
        assume(False)
    mode = pinval('visit', 0)
    if mode:
        cell = pin('cell', cell, 0, 5)
        action = cz(action, 1, 3)
    else:
        cell = action = None
    with notrace():
        r = _body(kinds, parents, alias, cell, action, keystyle)
    if r is None:
        assume(False)
    return r


def obligations(tier):
    obs = []
    q = tier == 'quick'
    T = 170 if q else 1500
    for root in range(1, 6):
        for ks in ((0, 1) if root in (1, 2, 3) else (0,)):
            obs.append(Ob('remap_law', timeout=T, pins={'root': root, 'nmin': 1, 'nmax': 4, 'alias': 0, 'visit': 0, 'keystyle': ks}))
            if not q:
                for k1 in range(6):       # five nodes, partitioned by the kind of the second node
                    if root in (SET, FSET) and k1 not in HASHABLE_KINDS:
                        continue          # a set cannot hold an unhashable second node: nothing to build
                    obs.append(Ob('remap_law', timeout=T, pins={'root': root, 'nmin': 5, 'nmax': 5, 'k1': k1, 'alias': 0, 'visit': 0, 'keystyle': ks}))
        obs.append(Ob('remap_law', timeout=T if q else 2700, pins={'root': root, 'nmin': 1, 'nmax': 3 if q else 4, 'alias': 1, 'visit': 0},
                      need_kinds=('alias',) + (('cycle',) if root in (1, 2) else ())))
    for root in (1, 2, 3):
        for cell in range(6):
            obs.append(Ob('remap_law', timeout=T, pins={'root': root, 'nmin': 2, 'nmax': 3 if q else 4, 'alias': 0, 'visit': 1, 'cell': cell, 'keystyle': cell % 2}))
            if not q:
                # with an alias edge the four-node family does not finish in 25 min per obligation (measured): three nodes
                obs.append(Ob('remap_law', timeout=T, pins={'root': root, 'nmin': 2, 'nmax': 3, 'alias': 1, 'visit': 1, 'cell': cell, 'keystyle': cell % 2}))
    return obs

"""C17 OneToOne / ManyToMany stay mutual inverses; FrozenDict immutable, content-hashed.

Engine E1 (CrossHair/z3).  Keys AND values are symbolic-identity K objects (both
sides are hashed).  Pre-state: built through the public API from n symbolic
pairs; then ONE operation (op-code pinned per process, arguments symbolic) on
the forward or the inverse object; afterwards inverse-consistency and agreement
with a reference model are asserted.
"""
import copy
import pickle
from boltons.dictutils import OneToOne, ManyToMany, FrozenDict, FrozenHashError
from vf.rt import K, cz, pin, pinval, assume, fail, done, notrace, labels
from vf.check import Ob

PROPERTY = 'C17'
TARGETS = ['boltons.dictutils.OneToOne.__init__', 'boltons.dictutils.OneToOne.__setitem__',
           'boltons.dictutils.OneToOne.__delitem__', 'boltons.dictutils.OneToOne.pop',
           'boltons.dictutils.OneToOne.popitem', 'boltons.dictutils.OneToOne.clear',
           'boltons.dictutils.OneToOne.setdefault', 'boltons.dictutils.OneToOne.update',
           'boltons.dictutils.OneToOne.copy', 'boltons.dictutils.OneToOne.__ior__',
           'boltons.dictutils.ManyToMany.__init__', 'boltons.dictutils.ManyToMany.add',
           'boltons.dictutils.ManyToMany.remove', 'boltons.dictutils.ManyToMany.__setitem__',
           'boltons.dictutils.ManyToMany.__delitem__', 'boltons.dictutils.ManyToMany.replace',
           'boltons.dictutils.ManyToMany.update', 'boltons.dictutils.ManyToMany.__getitem__',
           'boltons.dictutils.ManyToMany.get', 'boltons.dictutils.ManyToMany.iteritems',
           'boltons.dictutils.FrozenDict.__hash__', 'boltons.dictutils.FrozenDict.updated',
           'boltons.dictutils.FrozenDict.__reduce_ex__', 'boltons.dictutils.FrozenDict.__copy__',
           'boltons.dictutils.FrozenDict.fromkeys']
BOUNDS = {
    'quick': {'pre_state_pairs': '0..3 (OneToOne), 0..3 (ManyToMany)', 'operations_after_pre_state': 1,
              'argument_pairs': '<=2', 'keys_values': 'symbolic identity (equality pattern decided by z3)'},
    'thorough': {'pre_state_pairs': '0..4', 'operations_after_pre_state': 2, 'argument_pairs': '<=2'},
}
ASSUMPTIONS = ['keys and values have consistent __eq__/__hash__ (constant hash is legal)',
               'reference for update(): assignments in argument order',
               'constructor with colliding values is only required to produce mutual inverses']
OUT_OF_CLAIM = ['unhashable values in OneToOne', 'subclasses', 'pre-states with more pairs than the bound',
                'FrozenDict hash clause: keys/values are small concretised ints (structure-symbolic)']
STUBS = []

# ------------------------------------------------------------------ OneToOne

def _has(m, k):
    for a, b in m:
        if a == k:
            return True
    return False


def _val(m, k):
    for a, b in m:
        if a == k:
            return b
    raise KeyError


def m_set(m, k, v):
    return [(a, b) for a, b in m if not (a == k) and not (b == v)] + [(k, v)]


def m_del(m, k):
    return [(a, b) for a, b in m if not (a == k)]


def same_pairs(got, exp):
    got = list(got)
    if len(got) != len(exp):
        return False
    for k, v in exp:
        n = 0
        for a, b in got:
            if a == k and b == v:
                n += 1
        if n != 1:
            return False
    return True


def inv_ok(o):
    f = list(dict.items(o))
    b = list(dict.items(o.inv))
    if len(f) != len(b) or len(o) != len(f) or len(o.inv) != len(b):
        return False
    if not same_pairs([(k, v) for v, k in b], f):
        return False
    for i in range(len(f)):          # no value under two keys
        for j in range(i + 1, len(f)):
            if f[i][1] == f[j][1]:
                return False
    return (o.inv.inv is o) and isinstance(o.inv, OneToOne)


OTO_NARGS = {'setitem': 1, 'delitem': 1, 'update_dict': 2, 'update_pairs': 2, 'update_iter': 2,
             'update_kw': 2, 'ior': 1, 'setdefault': 1, 'pop': 1, 'pop_default': 1, 'popitem': 0,
             'clear': 0, 'copy': 1, 'ctor_from_oto': 2}
OTO_OPS = ['setitem', 'delitem', 'update_dict', 'update_pairs', 'update_iter', 'update_kw', 'ior',
           'setdefault', 'pop', 'pop_default', 'popitem', 'clear', 'copy', 'ctor_from_oto']


def _oto_apply(t, m, op, kk, vv, k2, v2):
    """apply op to OneToOne view t with model m (list of pairs in t's direction); returns (ok, m)"""
    name = OTO_OPS[op]
    if name == 'setitem':
        t[kk] = vv
        m = m_set(m, kk, vv)
    elif name == 'delitem':
        try:
            del t[kk]
            if not _has(m, kk):
                return fail('oto_del_absent_no_error'), m
        except KeyError:
            if _has(m, kk):
                return fail('oto_del_present_keyerror'), m
        m = m_del(m, kk)
    elif name == 'update_dict':
        d = {kk: vv, k2: v2}
        t.update(d)
        for a, b in list(d.items()):
            m = m_set(m, a, b)
    elif name == 'update_pairs':
        t.update([(kk, vv), (k2, v2)])
        m = m_set(m_set(m, kk, vv), k2, v2)
    elif name == 'update_iter':
        t.update(iter([(kk, vv), (k2, v2)]))
        m = m_set(m_set(m, kk, vv), k2, v2)
    elif name == 'update_kw':
        t.update([(kk, vv)], kw1=v2)
        m = m_set(m_set(m, kk, vv), 'kw1', v2)
    elif name == 'ior':
        t0 = t
        t |= {kk: vv}
        if t is not t0:
            return fail('oto_ior_identity'), m
        m = m_set(m, kk, vv)
    elif name == 'setdefault':
        r = t.setdefault(kk, vv)
        if _has(m, kk):
            if not (r == _val(m, kk)):
                return fail('oto_setdefault_return'), m
        else:
            if not (r == vv):
                return fail('oto_setdefault_return'), m
            m = m_set(m, kk, vv)
    elif name == 'pop':
        try:
            r = t.pop(kk)
            if not _has(m, kk) or not (r == _val(m, kk)):
                return fail('oto_pop_return'), m
        except KeyError:
            if _has(m, kk):
                return fail('oto_pop_present_keyerror'), m
        m = m_del(m, kk)
    elif name == 'pop_default':
        # when the default equals the stored value, pass the stored object itself (identity with the default)
        dflt = t[kk] if (_has(m, kk) and t[kk] == vv) else vv
        r = t.pop(kk, dflt)
        exp = _val(m, kk) if _has(m, kk) else vv
        if not (r == exp):
            return fail('oto_pop_return'), m
        m = m_del(m, kk)
    elif name == 'popitem':
        try:
            a, b = t.popitem()
            if not _has(m, a) or not (_val(m, a) == b):
                return fail('oto_popitem_return'), m
            m = m_del(m, a)
        except KeyError:
            if m:
                return fail('oto_popitem_nonempty_keyerror'), m
    elif name == 'clear':
        t.clear()
        m = []
    elif name == 'copy':
        c = t.copy()
        if c is t or not isinstance(c, OneToOne) or not inv_ok(c) or not same_pairs(dict.items(c), m):
            return fail('oto_copy_content'), m
        c[kk] = vv                      # mutating the copy must not touch the source
        if not inv_ok(c) or not same_pairs(dict.items(c), m_set(m, kk, vv)):
            return fail('oto_copy_mutation'), m
    elif name == 'ctor_from_oto':
        c = OneToOne(t)
        if not inv_ok(c) or not same_pairs(dict.items(c), m):
            return fail('oto_ctor_content'), m
        c.pop(kk, None)
        c[k2] = v2
    return True, m


def oto_step(n: int, a0: int, b0: int, a1: int, b1: int, a2: int, b2: int, side: int, via_inv: int,
             op: int, k: int, v: int, k2: int, v2: int) -> bool:
    """
    pre: 0 <= n <= 3 and 0 <= side <= 1 and 0 <= via_inv <= 1 and 0 <= op <= 13
    post: _
    """
    n = cz(n, 0, pinval('nmax', 3))
    side = cz(side, 0, 1)
    via_inv = pin('via_inv', via_inv, 0, 1)
    op = pin('op', op, 0, len(OTO_OPS) - 1)
    na = OTO_NARGS[OTO_OPS[op]]
    ks = labels([a0, a1, a2][:n] + [k, k2][:na])
    vs = labels([b0, b1, b2][:n] + [v, v2][:na])
    pairs = [(K(ks[i]), K(vs[i])) for i in range(n)]
    k, k2 = (ks[n:] + [90, 91])[:2]
    v, v2 = (vs[n:] + [90, 91])[:2]
    with notrace():                     # everything below runs on concrete labels
        return _oto_step_body(n, side, via_inv, op, pairs, k, v, k2, v2)


def _oto_step_body(n, side, via_inv, op, pairs, k, v, k2, v2):
    if side == 1:
        k, v, k2, v2 = v, k, v2, k2     # arguments are named in the direction of the side used
    if via_inv:
        o = OneToOne().inv
        for a, b in pairs:
            o[a] = b
        o = o.inv                       # pre-state built through the inverse side
    else:
        o = OneToOne(pairs)
    if not inv_ok(o):
        return fail('oto_ctor_inverse', 'after construction')
    t = o if side == 0 else o.inv
    m = list(dict.items(t))
    ok, m = _oto_apply(t, m, op, K(k), K(v), K(k2), K(v2))
    if not ok:
        return False
    if not inv_ok(o):
        return fail('oto_inverse_after_' + OTO_OPS[op], 'side=%d' % side)
    if not same_pairs(dict.items(t), m):
        return fail('oto_model_after_' + OTO_OPS[op], 'side=%d' % side)
    return done(True, op=OTO_OPS[op], n=n, side=side, via_inv=via_inv)


def oto_step2(n: int, a0: int, b0: int, a1: int, b1: int, side: int,
              op: int, k: int, v: int, k2: int, v2: int, side_b: int, op_b: int, k3: int, v3: int) -> bool:
    """
    pre: 0 <= n <= 2 and 0 <= side <= 1 and 0 <= side_b <= 1 and 0 <= op <= 13 and 0 <= op_b <= 11
    post: _
    """
    n = cz(n, 0, 2)
    side = cz(side, 0, 1)
    side_b = cz(side_b, 0, 1)
    op = pin('op', op, 0, len(OTO_OPS) - 1)
    op_b = pin('op_b', op_b, 0, 11)
    na = OTO_NARGS[OTO_OPS[op]]
    nb = OTO_NARGS[OTO_OPS[op_b]]
    nids = max(na, 2 if nb == 2 else 0)
    ks = labels([a0, a1][:n] + [k, k2][:nids] + ([k3] if nb else []))
    vs = labels([b0, b1][:n] + [v, v2][:nids] + ([v3] if nb else []))
    pairs = [(K(ks[i]), K(vs[i])) for i in range(n)]
    k, k2 = (ks[n:n + nids] + [90, 91])[:2]
    v, v2 = (vs[n:n + nids] + [90, 91])[:2]
    k3 = ks[-1] if nb else 92
    v3 = vs[-1] if nb else 92
    with notrace():
        return _oto_step2_body(n, side, side_b, op, op_b, pairs, k, v, k2, v2, k3, v3)


def _oto_step2_body(n, side, side_b, op, op_b, pairs, k, v, k2, v2, k3, v3):
    o = OneToOne(pairs)
    if not inv_ok(o):
        return fail('oto_ctor_inverse', 'after construction')
    t = o if side == 0 else o.inv
    m = list(dict.items(t))
    if side == 0:
        ok, m = _oto_apply(t, m, op, K(k), K(v), K(k2), K(v2))
    else:
        ok, m = _oto_apply(t, m, op, K(v), K(k), K(v2), K(k2))
    if not ok:
        return False
    if not inv_ok(o) or not same_pairs(dict.items(t), m):
        return fail('oto_after_' + OTO_OPS[op], 'side=%d' % side)
    if side_b != side:
        t = o if side_b == 0 else o.inv
        m = [(b, a) for a, b in m]
    if side_b == 0:
        ok, m = _oto_apply(t, m, op_b, K(k3), K(v3), K(k), K(v2))
    else:
        ok, m = _oto_apply(t, m, op_b, K(v3), K(k3), K(v), K(k2))
    if not ok:
        return False
    if not inv_ok(o) or not same_pairs(dict.items(t), m):
        return fail('oto_after_' + OTO_OPS[op] + '_' + OTO_OPS[op_b], 'sides=%d,%d' % (side, side_b))
    return done(True, op=OTO_OPS[op], op_b=OTO_OPS[op_b], n=n)


def oto_unique(n: int, a0: int, b0: int, a1: int, b1: int, a2: int, b2: int) -> bool:
    """
    pre: 0 <= n <= 3
    post: _
    """
    n = cz(n, 0, 3)
    ks = labels([a0, a1, a2][:n])
    vs = labels([b0, b1, b2][:n])
    pairs = [(K(ks[i]), K(vs[i])) for i in range(n)]
    with notrace():
        return _oto_unique_body(n, pairs)


def _oto_unique_body(n, pairs):
    d = {}
    for a, b in pairs:
        d[a] = b
    vals = list(d.values())
    dupe = False
    for i in range(len(vals)):
        for j in range(i + 1, len(vals)):
            if vals[i] == vals[j]:
                dupe = True
    try:
        o = OneToOne.unique(pairs)
    except ValueError:
        if not dupe:
            return fail('oto_unique_spurious_error')
        return done(True, n=n, dupe=True)
    if dupe:
        return fail('oto_unique_accepts_dupes')
    if not inv_ok(o) or not same_pairs(dict.items(o), list(d.items())):
        return fail('oto_unique_content')
    return done(True, n=n, dupe=False)


# ------------------------------------------------------------------ ManyToMany

def mm_pairs(m):
    return [(k, v) for k in m.data for v in m.data[k]]


def mm_ok(m, model):
    f = list(m.iteritems())
    b = list(m.inv.iteritems())
    if not same_pairs(f, model):
        return False
    if not same_pairs([(k, v) for v, k in b], model):
        return False
    for side in (m, m.inv):
        for k in side.data:
            if len(side.data[k]) == 0:
                return False
        if len(side) != len(side.data):
            return False
    if m.inv.inv is not m:
        return False
    # keyed reads agree with the pairs
    for k, v in model:
        if not (k in m) or not (v in m[k]) or not (k in m.inv[v]):
            return False
    for k in m.keys():
        cnt = 0
        for a, bb in model:
            if a == k:
                cnt += 1
        if cnt != len(m[k]) or cnt != len(m.get(k)):
            return False
    return True


def mset_add(model, k, v):
    for a, b in model:
        if a == k and b == v:
            return model
    return model + [(k, v)]


MM_NARGS = {'add': 1, 'remove': 1, 'setitem': 2, 'delitem': 1, 'replace': 2, 'update_m2m': 2,
            'update_mapping': 2, 'update_pairs': 2, 'update_iter': 2, 'ctor_m2m': 2, 'get_absent': 1}
MM_OPS = ['add', 'remove', 'setitem', 'delitem', 'replace', 'update_m2m', 'update_mapping',
          'update_pairs', 'update_iter', 'ctor_m2m', 'get_absent']


def mm_step(n: int, a0: int, b0: int, a1: int, b1: int, a2: int, b2: int, side: int,
            op: int, k: int, v: int, k2: int, v2: int, nv: int) -> bool:
    """
    pre: 0 <= n <= 3 and 0 <= side <= 1 and 0 <= op <= 10 and 0 <= nv <= 2
    post: _
    """
    n = cz(n, 0, pinval('nmax', 3))
    side = cz(side, 0, 1)
    op = pin('op', op, 0, len(MM_OPS) - 1)
    nv = cz(nv, 0, 2)
    na = MM_NARGS[MM_OPS[op]]
    ks = labels([a0, a1, a2][:n] + [k, k2][:na])
    vs = labels([b0, b1, b2][:n] + [v, v2][:na])
    pairs = [(K(ks[i]), K(vs[i])) for i in range(n)]
    k, k2 = (ks[n:] + [90, 91])[:2]
    v, v2 = (vs[n:] + [90, 91])[:2]
    with notrace():
        return _mm_step_body(n, side, op, nv, pairs, k, v, k2, v2)


def _mm_step_body(n, side, op, nv, pairs, k, v, k2, v2):
    if side == 1:
        k, v, k2, v2 = v, k, v2, k2     # arguments are named in the direction of the side used
    mm = ManyToMany(pairs)
    model = []
    for a, b in pairs:
        model = mset_add(model, a, b)
    if not mm_ok(mm, model):
        return fail('m2m_ctor')
    t = mm if side == 0 else mm.inv
    if side == 1:
        model = [(b, a) for a, b in model]
    kk, vv, kk2, vv2 = K(k), K(v), K(k2), K(v2)
    name = MM_OPS[op]
    if name == 'add':
        t.add(kk, vv)
        model = mset_add(model, kk, vv)
    elif name == 'remove':
        present = False
        for a, b in model:
            if a == kk and b == vv:
                present = True
        try:
            t.remove(kk, vv)
            if not present:
                return fail('m2m_remove_absent_no_error')
        except KeyError:
            if present:
                return fail('m2m_remove_present_keyerror')
        model = [(a, b) for a, b in model if not (a == kk and b == vv)]
    elif name == 'setitem':
        vals = [vv, vv2][:nv]
        t[kk] = vals
        model = [(a, b) for a, b in model if not (a == kk)]
        for x in vals:
            model = mset_add(model, kk, x)
    elif name == 'delitem':
        present = _has(model, kk)
        try:
            del t[kk]
            if not present:
                return fail('m2m_del_absent_no_error')
        except KeyError:
            if present:
                return fail('m2m_del_present_keyerror')
        model = [(a, b) for a, b in model if not (a == kk)]
    elif name == 'replace':
        t.replace(kk, kk2)
        new = []
        for a, b in model:
            if a == kk:
                new = mset_add(new, kk2, b)
            else:
                new = mset_add(new, a, b)
        model = new
    elif name in ('update_m2m', 'ctor_m2m'):
        other_pairs = [(kk, vv), (kk2, vv2)][:nv]
        other = ManyToMany(other_pairs)
        omodel = []
        for a, b in other_pairs:
            omodel = mset_add(omodel, a, b)
        if name == 'update_m2m':
            t.update(other)
            for a, b in omodel:
                model = mset_add(model, a, b)
            if not mm_ok(t, model):
                return fail('m2m_after_update_m2m')
            # later mutation of the receiver must not change the argument
            t.add(kk, K(v2))
            model = mset_add(model, kk, K(v2))
            if nv > 0:
                t.remove(kk, vv)
                model = [(a, b) for a, b in model if not (a == kk and b == vv)]
            if not mm_ok(other, omodel):
                return fail('m2m_update_aliases_argument')
        else:
            c = ManyToMany(t)
            if not mm_ok(c, model):
                return fail('m2m_ctor_from_m2m')
            c.add(kk, vv)
            if nv > 1:
                for a, b in list(model)[:1]:
                    c.remove(a, b)
            if not mm_ok(t, model):
                return fail('m2m_ctor_aliases_argument')
    elif name == 'update_mapping':
        d = {kk: vv, kk2: vv2}
        t.update(d)
        for a in d:
            model = mset_add(model, a, d[a])
    elif name == 'update_pairs':
        t.update([(kk, vv), (kk2, vv2)])
        model = mset_add(mset_add(model, kk, vv), kk2, vv2)
    elif name == 'update_iter':
        t.update(iter([(kk, vv), (kk2, vv2)]))
        model = mset_add(mset_add(model, kk, vv), kk2, vv2)
    elif name == 'get_absent':
        present = _has(model, kk)
        r = t.get(kk)
        if not present and len(r) != 0:
            return fail('m2m_get_default')
        try:
            t[kk]
            if not present:
                return fail('m2m_getitem_absent')
        except KeyError:
            if present:
                return fail('m2m_getitem_present')
    if not mm_ok(t, model):
        return fail('m2m_after_' + name, 'side=%d' % side)
    if not mm_ok(t.inv, [(b, a) for a, b in model]):
        return fail('m2m_inverse_after_' + name, 'side=%d' % side)
    return done(True, op=name, n=n, side=side)


# ------------------------------------------------------------------ FrozenDict

FD_MUT = ['setitem', 'delitem', 'update', 'ior', 'setdefault', 'pop', 'popitem', 'clear', 'update_kw']


def fd_immutable(n: int, a0: int, b0: int, a1: int, b1: int, op: int, k: int, v: int) -> bool:
    """
    pre: 0 <= n <= 2 and 0 <= op <= 8
    post: _
    """
    n = cz(n, 0, 2)
    op = cz(op, 0, 8)
    ks = labels([a0, a1][:n] + [k])
    pairs = [(K(ks[i]), K(cz([b0, b1][i], 0, 2))) for i in range(n)]
    k = ks[-1]
    v = cz(v, 0, 1)
    with notrace():
        return _fd_immutable_body(n, op, pairs, k, v)


def _fd_immutable_body(n, op, pairs, k, v):
    fd = FrozenDict(pairs)
    before = list(dict.items(fd))
    kk, vv = K(k), K(v)
    name = FD_MUT[op]
    try:
        if name == 'setitem':
            fd[kk] = vv
        elif name == 'delitem':
            del fd[kk]
        elif name == 'update':
            fd.update({kk: vv})
        elif name == 'ior':
            fd |= {kk: vv}
        elif name == 'setdefault':
            fd.setdefault(kk, vv)
        elif name == 'pop':
            fd.pop(kk, None)
        elif name == 'popitem':
            fd.popitem()
        elif name == 'clear':
            fd.clear()
        elif name == 'update_kw':
            fd.update(x=vv)
        return fail('fd_mutator_did_not_raise', name)
    except TypeError:
        pass
    except KeyError:
        return fail('fd_mutator_wrong_exception', name)
    if not isinstance(fd, FrozenDict) or not same_pairs(dict.items(fd), before):
        return fail('fd_changed_by_mutator', name)
    return done(True, op=name, n=n)


def fd_hash(n: int, a0: int, b0: int, a1: int, b1: int, a2: int, b2: int, perm: int, unhash: int,
            k: int, v: int) -> bool:
    """
    pre: 0 <= n <= 3 and 0 <= perm <= 5 and 0 <= unhash <= 1
    post: _
    """
    n = cz(n, 0, 3)
    mode = pin('mode', 0, 0, 1)          # 0: order-independence of ==/hash, 1: updated/copy/pickle
    if mode == 0:
        perm = cz(perm, 0, 5)
        unhash = cz(unhash, 0, 1)
        ks = labels([a0, a1, a2][:n])
        k = v = 0
    else:
        perm = unhash = 0
        ks = labels([a0, a1, a2][:n] + [k])
        k = ks[-1]
        ks = ks[:n]
        v = cz(v, 0, 2)
    vs = [cz(b0, 0, 1), cz(b1, 0, 1), cz(b2, 0, 1)][:n]
    with notrace():
        return _fd_hash_body(n, perm, unhash, ks, vs, k, v, mode)


MIXED_KEYS = [0, 'one', None, (2, 'b'), 4.5, frozenset([5])]      # keys of types that cannot be ordered against each other


def _fd_hash_body(n, perm, unhash, ks, vs, k, v, mode):
    # key labels become keys of mixed types: equality and hashing of a FrozenDict must not depend on an ordering of the keys
    ks = [MIXED_KEYS[x % len(MIXED_KEYS)] for x in ks]
    k = MIXED_KEYS[k % len(MIXED_KEYS)] if mode else k
    d = {}
    for a, b in zip(ks, vs):
        d[a] = b
    items = list(d.items())
    order = [(0, 1, 2), (0, 2, 1), (1, 0, 2), (1, 2, 0), (2, 0, 1), (2, 1, 0)][perm]
    items2 = [items[i] for i in order if i < len(items)]
    if unhash and items:
        bad = [items[0][1]]
        items[0] = (items[0][0], bad)
        items2 = [(a, (bad if a == items[0][0] else b)) for a, b in items2]
    fd1 = FrozenDict(items)
    fd2 = FrozenDict(items2)
    if not (fd1 == fd2) or (fd1 != fd2):
        return fail('fd_eq_order_dependent')
    if unhash and items:
        for i in range(2):
            for f in (fd1, fd2):
                try:
                    hash(f)
                    return fail('fd_unhashable_hash_succeeded')
                except FrozenHashError:
                    pass
        return done(True, kind='unhashable', n=n)
    if hash(fd1) != hash(fd2) or hash(fd1) != hash(fd1):
        return fail('fd_hash_order_dependent', '%r %r' % (items, items2))
    if len({fd1: 1, fd2: 2}) != 1:
        return fail('fd_not_usable_as_key')
    if mode == 0:
        return done(True, kind='hashable', n=n, perm=perm)
    # updated / copy / pickle: equal values, original untouched
    u = fd1.updated({k: v})
    exp = dict(items)
    exp[k] = v
    if not isinstance(u, FrozenDict) or dict(u) != exp or dict(fd1) != dict(items):
        return fail('fd_updated')
    if hash(u) != hash(FrozenDict(exp)):
        return fail('fd_updated_hash')
    u2 = fd1.updated([(k, v)], z=v)
    exp2 = dict(exp)
    exp2['z'] = v
    if dict(u2) != exp2 or dict(fd1) != dict(items):
        return fail('fd_updated_kw')
    c = copy.copy(fd1)
    dc = copy.deepcopy(fd1)
    p = pickle.loads(pickle.dumps(fd1))
    for x in (c, dc, p, FrozenDict(fd1), FrozenDict.fromkeys(d.keys(), v)):
        if not isinstance(x, FrozenDict):
            return fail('fd_copy_type')
    if not (c == fd1 and dc == fd1 and p == fd1) or hash(p) != hash(fd1) or hash(dc) != hash(fd1):
        return fail('fd_copy_pickle_equal')
    if dict(FrozenDict.fromkeys(d.keys(), v)) != dict.fromkeys(d.keys(), v):
        return fail('fd_fromkeys')
    return done(True, kind='updated', n=n)


def obligations(tier):
    obs = []
    q = tier == 'quick'
    T = 150 if q else 900
    for op, name in enumerate(OTO_OPS):
        nmax = (2 if OTO_NARGS[name] == 2 else 3) if q else 3
        obs.append(Ob('oto_step', timeout=T, pins={'op': op, 'nmax': nmax, 'via_inv': 0}))
    obs.append(Ob('oto_step', timeout=T, pins={'op': 0, 'nmax': 3, 'via_inv': 1}))
    for op, name in enumerate(MM_OPS):
        nmax = (2 if MM_NARGS[name] == 2 else 3) if q else 3
        obs.append(Ob('mm_step', timeout=T, pins={'op': op, 'nmax': nmax}))
    obs.append(Ob('oto_unique', timeout=T))
    obs.append(Ob('fd_immutable', timeout=T))
    obs.append(Ob('fd_hash', timeout=T, pins={'mode': 0}))
    obs.append(Ob('fd_hash', timeout=T, pins={'mode': 1}))
    if not q:
        for op in range(len(OTO_OPS)):
            for op_b in range(12):
                obs.append(Ob('oto_step2', timeout=T, pins={'op': op, 'op_b': op_b}))
    return obs

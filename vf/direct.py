"""Run ONE direct solver obligation (no CrossHair): a harness function that builds its own
z3/cvc5 queries from the repository's current source or data and returns a result dict:
  {'verdict': 'confirmed'|'counterexample'|'inconclusive'|'error', 'paths': <queries>, 'witness': n,
   'call_args': '<python argument list for the replay function>', 'replay_function': name, ...}
usage: python -m vf.direct <harness module> <function> <timeout_s> [<json pins>] [<json assume_not>]
"""
import sys
import os
import json
import time
import importlib
import traceback


def main():
    modname, fname, timeout = sys.argv[1], sys.argv[2], float(sys.argv[3])
    pins = json.loads(sys.argv[4]) if len(sys.argv) > 4 else {}
    assume_not = json.loads(sys.argv[5]) if len(sys.argv) > 5 else []
    t0 = time.time()
    out = {'module': modname, 'function': fname, 'pins': pins, 'verdict': 'error'}
    try:
        from vf import rt
        rt.configure(pins=pins, assume_not=assume_not)
        mod = importlib.import_module(modname)
        res = getattr(mod, fname)(pins, timeout)
        out.update(res)
    except BaseException as e:  # noqa
        out['verdict'] = 'error'
        out['message'] = '%s: %s' % (type(e).__name__, e)
        out['traceback'] = traceback.format_exc()[-2000:]
    out['wall_s'] = round(time.time() - t0, 2)
    sys.stdout.write('\nRESULT ' + json.dumps(out) + '\n')
    sys.stdout.flush()
    os._exit(0)


if __name__ == '__main__':
    main()

"""Run ONE obligation: symbolic execution of a harness function with CrossHair (z3).

usage: python -m vf.worker <harness module> <function> <timeout_s> [<json pins>] [<json assume_not>]
Prints one JSON line (prefix RESULT ) describing the verdict.
"""
import sys
import os
import re
import json
import time
import collections
import importlib
import traceback


def main():
    modname, fname, timeout = sys.argv[1], sys.argv[2], float(sys.argv[3])
    pins = json.loads(sys.argv[4]) if len(sys.argv) > 4 else {}
    assume_not = json.loads(sys.argv[5]) if len(sys.argv) > 5 else []
    t0 = time.time()
    out = {'module': modname, 'function': fname, 'pins': pins, 'verdict': 'error'}
    try:
        from crosshair.core_and_libs import analyze_function, run_checkables, MessageType
        from crosshair.options import AnalysisOptionSet
        import z3
        from vf import shims
        shims.install()
        from vf import rt

        solver_time = [0.0, 0]
        _orig_check = z3.Solver.check

        def timed_check(self, *a, **k):
            t = time.perf_counter()
            try:
                return _orig_check(self, *a, **k)
            finally:
                solver_time[0] += time.perf_counter() - t
                solver_time[1] += 1
        z3.Solver.check = timed_check

        mod = importlib.import_module(modname)
        fn = getattr(mod, fname)
        rt.configure(pins=pins, assume_not=assume_not)
        stats = collections.Counter()
        opts = AnalysisOptionSet(per_condition_timeout=timeout, report_all=True, stats=stats)
        checkables = analyze_function(fn, opts)
        if not checkables:
            out['verdict'] = 'error'
            out['message'] = 'no condition found on harness function'
        else:
            msgs = run_checkables(checkables)
            out['messages'] = [(m.state.name, m.message) for m in msgs]
            verdict = 'inconclusive'
            for m in msgs:
                if m.state in (MessageType.POST_FAIL, MessageType.EXEC_ERR, MessageType.POST_ERR):
                    verdict = 'counterexample'
                    out['message'] = m.message
                    out['engine_traceback'] = (getattr(m, 'traceback', '') or '')[-1500:]
                    mm = re.search(r'when calling (\w+)\((.*?)\)(?: \(which (?:returns|raises) .*\))?$',
                                   m.message, re.S)
                    if mm:
                        out['call_args'] = mm.group(2)
                    break
                if m.state == MessageType.CONFIRMED:
                    verdict = 'confirmed'
                elif m.state == MessageType.PRE_UNSAT:
                    verdict = 'vacuous'
                    out['message'] = m.message
                elif m.state in (MessageType.SYNTAX_ERR, MessageType.IMPORT_ERR):
                    verdict = 'error'
                    out['message'] = m.message
                else:
                    out['message'] = m.message
            out['verdict'] = verdict
        out['paths'] = int(stats.get('num_paths', 0))
        out['completed'] = rt.STATE['paths']
        out['witness'] = rt.STATE['witness']
        out['witness_kinds'] = rt.STATE['witness_kinds']
        out['samples'] = rt.STATE['samples']
        out['fail'] = rt.STATE['fail']
        out['solver_s'] = round(solver_time[0], 3)
        out['solver_queries'] = solver_time[1]
    except BaseException as e:  # noqa - report anything, the orchestrator decides
        out['verdict'] = 'error'
        out['message'] = '%s: %s' % (type(e).__name__, e)
        out['traceback'] = traceback.format_exc()[-2000:]
    out['wall_s'] = round(time.time() - t0, 2)
    sys.stdout.write('\nRESULT ' + json.dumps(out) + '\n')
    sys.stdout.flush()
    os._exit(0)


if __name__ == '__main__':
    main()

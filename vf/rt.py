"""Run-time support shared by every harness.

A harness function is executed in three ways with the very same body:
  * symbolically by CrossHair (vf.worker) - arguments are solver variables;
  * concretely by vf.replay under /venv/bin/python (no CrossHair importable);
  * concretely by the self-tests of the harness itself.
This module therefore must not import crosshair at import time.
"""
import os
import json

# ---------------------------------------------------------------- bookkeeping
STATE = {
    'paths': 0,        # harness executions that ran to their end (completed paths)
    'witness': 0,      # ... of which reached the obligation's witness predicate
    'fail': None,      # (clause, detail) of the last failing comparison
    'samples': [],     # a few concrete structural descriptions of explored paths
    'pins': {},        # partition: parameter name -> concrete value
    'assume_not': set(),   # clauses of known findings treated as assumptions
    'witness_kinds': {},
}
_MAX_SAMPLES = 6


def configure(pins=None, assume_not=None):
    STATE['pins'] = dict(pins or {})
    STATE['assume_not'] = set(assume_not or ())
    STATE['paths'] = 0
    STATE['witness'] = 0
    STATE['fail'] = None
    STATE['samples'] = []
    STATE['witness_kinds'] = {}


def _notrace():
    try:
        from crosshair.tracers import NoTracing
        return NoTracing()
    except Exception:  # replay interpreter has no crosshair
        import contextlib
        return contextlib.nullcontext()


def notrace():
    """Context manager: run a block outside CrossHair's tracer (inputs must be concrete)."""
    return _notrace()


def resumed():
    """Context manager: re-enable CrossHair's tracer inside a notrace() block (for one symbolic comparison)."""
    try:
        from crosshair.tracers import ResumedTracing
        return ResumedTracing()
    except Exception:
        import contextlib
        return contextlib.nullcontext()


def cz(x, lo, hi):
    """Concretise a bounded symbolic int by exhaustive forking (lo..hi inclusive).

    Each value is one solver-decided branch, so the path tree stays exhaustible;
    passing the symbolic int to C code instead would realise it to one model
    value."""
    for v in range(lo, hi + 1):
        if x == v:
            return v
    assume(False)
    raise AssertionError('cz: value outside %d..%d' % (lo, hi))


def assume(cond):
    """Discard the current path unless cond holds (a precondition stated inside the body)."""
    if cond:
        return
    try:
        from crosshair.util import IgnoreAttempt
    except Exception:
        raise AssertionError('assumption violated in concrete run')
    raise IgnoreAttempt('harness assumption')


def czb(x):
    return True if x else False


def pin(name, x, lo, hi):
    """A structural parameter: concrete if this process is a partition on it, else cz()."""
    pins = STATE['pins']
    if name in pins:
        return pins[name]
    return cz(x, lo, hi)


def pinval(name, default=None):
    """A concrete per-partition setting (e.g. a size bound) taken from the obligation's pins."""
    return STATE['pins'].get(name, default)


def fail(clause, detail=''):
    """Record the failing comparison; returns the harness result for this path.

    When `clause` belongs to a known finding that is being assumed away (second
    pass), the path is treated as satisfied so that the search continues for
    other failures."""
    if clause in STATE['assume_not']:
        try:
            from crosshair.util import IgnoreAttempt
        except Exception:
            return True
        raise IgnoreAttempt('assumed away: known finding ' + clause)
    with _notrace():
        try:
            d = str(detail)[:700]
        except Exception:
            d = '<unprintable>'
        STATE['fail'] = (clause, d)
    return False


class HarnessGap(BaseException):
    """the harness relies on an internal name of the code under test that is no longer there: harness error (exit 3),
    never a violation - a refactoring may rename internals freely"""


_NOTHING = object()


def internal(obj, name):
    """read a private attribute the harness needs (to force a rare layout, to read a table); missing -> HarnessGap"""
    with _notrace():
        v = getattr(obj, name, _NOTHING)
    if v is _NOTHING:
        raise HarnessGap('%r has no attribute %r any more: the harness must be adapted' % (type(obj).__name__ if not isinstance(obj, type) and not hasattr(obj, '__file__') else getattr(obj, '__name__', obj), name))
    return v


def done(witness=True, kind=None, **sample):
    """Mark the end of a completed path; `witness` says the interesting predicate was reached."""
    w = True if witness else False          # decided under tracing (may be symbolic)
    reprs = None
    if sample and len(STATE['samples']) < _MAX_SAMPLES:
        try:
            reprs = {k: repr(v)[:80] for k, v in sample.items()}
        except Exception:
            reprs = None
    with _notrace():
        STATE['paths'] += 1
        if w:
            STATE['witness'] += 1
            if kind is not None:
                wk = STATE['witness_kinds']
                wk[kind] = wk.get(kind, 0) + 1
        if reprs is not None and len(STATE['samples']) < _MAX_SAMPLES:
            reprs = {k: v for k, v in reprs.items() if type(k) is str and type(v) is str}   # drop symbolic reprs
            if reprs:
                STATE['samples'].append(reprs)
    return True


# ---------------------------------------------------------------- symbolic-identity keys
class K:
    """Hashable key with symbolic identity: constant hash, equality on a (symbolic) int.

    dict/set storage resolves every lookup through __eq__, which forks in the
    solver on equality only; one path stands for every assignment of concrete
    hashable keys with that equality pattern."""
    __slots__ = ('i',)

    def __init__(self, i):
        self.i = i

    def __hash__(self):
        return 0

    def __eq__(self, o):
        return isinstance(o, K) and self.i == o.i

    def __ne__(self, o):
        return not self.__eq__(o)

    def __repr__(self):
        return 'K(%r)' % (self.i,)

    def __reduce__(self):
        return (K, (self.i,))

    def __deepcopy__(self, memo):
        return self

    def __copy__(self):
        return self


def labels(xs):
    """Canonical labelling of symbolic ids: returns concrete ints, label[i] = index of the
    first id equal to xs[i].  Every comparison is a solver-decided branch, so one path
    per feasible equality pattern (set partition) is explored and everything after this
    call runs on concrete labels.  Code that uses keys only through ==/hash cannot tell
    a concrete key assignment from its canonical relabelling."""
    out = []
    for i, x in enumerate(xs):
        lab = i
        for j in range(i):
            if out[j] == j and x == xs[j]:
                lab = j
                break
        out.append(lab)
    return out


def order_labels(xs, zero=False, strict=False):
    """Canonical order pattern of symbolic numbers: returns concrete ints r with
    r[i] < r[j] iff xs[i] < xs[j] and r[i] == r[j] iff xs[i] == xs[j]; with zero=True
    additionally sign(r[i]) == sign(xs[i]).  Each comparison is a solver-decided
    branch (insertion into a sorted list of classes), so one path per feasible weak
    ordering is explored and everything afterwards runs on concrete ranks.  Code that
    uses the numbers only through comparisons cannot tell the difference."""
    classes = []            # sorted list of (representative symbolic value, [indices])
    if zero:
        classes.append((0, [-1]))
    for i, x in enumerate(xs):
        placed = False
        for pos in range(len(classes)):
            rep = classes[pos][0]
            if x == rep:
                if strict:
                    assume(False)        # pairwise distinct values only: discard this path early
                classes[pos][1].append(i)
                placed = True
                break
            if x < rep:
                classes.insert(pos, (x, [i]))
                placed = True
                break
        if not placed:
            classes.append((x, [i]))
    out = [0] * len(xs)
    base = 0
    if zero:
        for pos, (rep, idxs) in enumerate(classes):
            if -1 in idxs:
                base = pos
    for pos, (rep, idxs) in enumerate(classes):
        for i in idxs:
            if i >= 0:
                out[i] = pos - base
    return out


def keq(a, b):
    return True if a == b else False


def pairs_eq(got, exp):
    """Ordered comparison of two sequences of (key, value) pairs."""
    got = list(got)
    if len(got) != len(exp):
        return False
    for (a, b), (c, d) in zip(got, exp):
        if not (a == c) or not (b == d):
            return False
    return True


def seq_eq(got, exp):
    got = list(got)
    exp = list(exp)
    if len(got) != len(exp):
        return False
    for a, b in zip(got, exp):
        if not (a == b):
            return False
    return True


def env_json(name, default):
    v = os.environ.get(name)
    if not v:
        return default
    return json.loads(v)

"""E2 for C20: a transition relation for ThresholdCounter.add generated from its AST.

The source of ThresholdCounter.add is read with inspect on every run and interpreted over an
abstract state
    total, cur_bucket : Python ints (they only ever change by constants),
    for each key id j in 0..NK-1:  cnt[j], bkt[j] : z3 Int,  pres[j] : z3 Bool
with a symbolic key (z3 Int).  The interpreter accepts exactly the statement shapes of the
lossy-counting update (attribute increments, try/except KeyError around the in-place count
increment, insertion of a [count, bucket] pair, the modulo-guarded compaction by a dict
comprehension with a filter on the pair, bucket increment).  Operators, constants and the
order of the statements are taken from the AST; anything else raises Unsupported.
"""
import ast
import inspect
import textwrap
import z3

from vf.pysym import Unsupported

INT = z3.Int            # sort of the per-key count / bucket variables (the BMC driver may switch to bit-vectors)


class State:
    def __init__(self, nk, thresh_count):
        self.total = 0
        self.cur_bucket = 1
        self.thresh_count = thresh_count
        self.cnt = [z3.IntVal(0)] * nk
        self.bkt = [z3.IntVal(0)] * nk
        self.pres = [z3.BoolVal(False)] * nk


def _attr(node):
    """self.<name> -> name"""
    if isinstance(node, ast.Attribute) and isinstance(node.value, ast.Name) and node.value.id == 'self':
        return node.attr
    return None


class _LazyHits:
    def __init__(self, key):
        self.key = key
        self.cache = {}

    def __getitem__(self, j):
        if j not in self.cache:
            self.cache[j] = self.key == j
        return self.cache[j]


class AddInterp:
    def __init__(self, cls):
        src = textwrap.dedent(inspect.getsource(cls.add))
        self.fdef = ast.parse(src).body[0]
        self.keyname = self.fdef.args.args[1].arg
        self.fresh = 0

    # scalar expressions over total / _cur_bucket / _thresh_count / constants
    def scalar(self, node, st, local=None):
        if isinstance(node, ast.Constant) and isinstance(node.value, int):
            return node.value
        a = _attr(node)
        if a == 'total':
            return st.total
        if a == '_cur_bucket':
            return st.cur_bucket
        if a == '_thresh_count':
            return st.thresh_count
        if isinstance(node, ast.BinOp):
            l, r = self.scalar(node.left, st, local), self.scalar(node.right, st, local)
            if isinstance(node.op, ast.Add):
                return l + r
            if isinstance(node.op, ast.Sub):
                return l - r
            if isinstance(node.op, ast.Mod):
                return l % r
            if isinstance(node.op, ast.Mult):
                return l * r
        if local is not None:
            # inside the comprehension filter: v is the [count, bucket] pair
            if isinstance(node, ast.Call) and ast.unparse(node.func) == 'sum' and len(node.args) == 1 and isinstance(node.args[0], ast.Name) \
                    and node.args[0].id == local['pair']:
                return local['cnt'] + local['bkt']
            if isinstance(node, ast.Subscript) and isinstance(node.value, ast.Name) and node.value.id == local['pair'] \
                    and isinstance(node.slice, ast.Constant) and node.slice.value in (0, 1):
                return local['cnt'] if node.slice.value == 0 else local['bkt']
        raise Unsupported('scalar expression %s' % ast.unparse(node))

    def cond(self, node, st, local=None):
        if isinstance(node, ast.Compare) and len(node.ops) == 1:
            l, r = self.scalar(node.left, st, local), self.scalar(node.comparators[0], st, local)
            op = node.ops[0]
            table = {ast.Gt: lambda: l > r, ast.GtE: lambda: l >= r, ast.Lt: lambda: l < r, ast.LtE: lambda: l <= r,
                     ast.Eq: lambda: l == r, ast.NotEq: lambda: l != r}
            if type(op) in table:
                return table[type(op)]()
        raise Unsupported('condition %s' % ast.unparse(node))

    def is_map_key(self, node):
        """self._count_map[key]"""
        return (isinstance(node, ast.Subscript) and _attr(node.value) == '_count_map' and isinstance(node.slice, ast.Name)
                and node.slice.id == self.keyname)

    def step(self, st, key, solver):
        """execute the body of add() once; mutates st"""
        nk = len(st.cnt)
        hit = _LazyHits(key)          # created on first use, per key (z3's search is sensitive to term creation order)
        self.pending = [[] for _ in range(nk)]
        self.stepno = getattr(self, 'stepno', -1) + 1       # constraints are emitted grouped by key (helps the solver considerably)
        for stmt in self.fdef.body:
            if isinstance(stmt, ast.Expr) and isinstance(stmt.value, ast.Constant):
                continue
            if isinstance(stmt, ast.Return):
                break
            self.exec_stmt(stmt, st, key, hit, solver)
        # one boolean per key and step names the presence flag after the whole statement list
        for j in range(nk):
            p = z3.Bool('p_%d_%d' % (self.stepno, j))
            self.pending[j].append(p == st.pres[j])
            st.pres[j] = p
            for c in self.pending[j]:
                solver.add(c)

    def exec_stmt(self, stmt, st, key, hit, solver):
        nk = len(st.cnt)
        if isinstance(stmt, ast.AugAssign) and _attr(stmt.target) in ('total', '_cur_bucket') and isinstance(stmt.op, (ast.Add, ast.Sub)):
            delta = self.scalar(stmt.value, st)
            delta = delta if isinstance(stmt.op, ast.Add) else -delta
            if _attr(stmt.target) == 'total':
                st.total += delta
            else:
                st.cur_bucket += delta
            return
        if isinstance(stmt, ast.Try):
            # try: self._count_map[key][0] += c      except KeyError: self._count_map[key] = [a, b]
            if len(stmt.body) != 1 or len(stmt.handlers) != 1 or stmt.orelse or stmt.finalbody:
                raise Unsupported('try shape')
            body, h = stmt.body[0], stmt.handlers[0]
            if not (isinstance(h.type, ast.Name) and h.type.id == 'KeyError' and len(h.body) == 1):
                raise Unsupported('handler shape')
            if not (isinstance(body, ast.AugAssign) and isinstance(body.op, ast.Add) and isinstance(body.target, ast.Subscript)
                    and self.is_map_key(body.target.value) and isinstance(body.target.slice, ast.Constant) and body.target.slice.value == 0):
                raise Unsupported('try body %s' % ast.unparse(body))
            inc = self.scalar(body.value, st)
            ins = h.body[0]
            if not (isinstance(ins, ast.Assign) and len(ins.targets) == 1 and self.is_map_key(ins.targets[0])
                    and isinstance(ins.value, ast.List) and len(ins.value.elts) == 2):
                raise Unsupported('handler body %s' % ast.unparse(ins))
            new_cnt = self.scalar(ins.value.elts[0], st)
            new_bkt = self.scalar(ins.value.elts[1], st)
            for j in range(nk):
                c, b = INT('c_%d_%d' % (self.stepno, j)), INT('b_%d_%d' % (self.stepno, j))
                self.pending[j].append(c == z3.If(hit[j], z3.If(st.pres[j], st.cnt[j] + inc, new_cnt), st.cnt[j]))
                self.pending[j].append(b == z3.If(z3.And(hit[j], z3.Not(st.pres[j])), new_bkt, st.bkt[j]))
                st.cnt[j], st.bkt[j], st.pres[j] = c, b, z3.Or(hit[j], st.pres[j])
            return
        if isinstance(stmt, ast.If) and not stmt.orelse:
            c = self.cond(stmt.test, st)
            if not isinstance(c, bool):
                raise Unsupported('non-concrete guard')
            if c:
                for s2 in stmt.body:
                    self.exec_stmt(s2, st, key, hit, solver)
            return
        if isinstance(stmt, ast.Assign) and len(stmt.targets) == 1 and _attr(stmt.targets[0]) == '_count_map' and isinstance(stmt.value, ast.DictComp):
            dc = stmt.value
            gen = dc.generators[0]
            ok = (len(dc.generators) == 1 and isinstance(gen.target, ast.Tuple) and len(gen.target.elts) == 2
                  and isinstance(gen.iter, ast.Call) and ast.unparse(gen.iter) == 'self._count_map.items()'
                  and isinstance(dc.key, ast.Name) and dc.key.id == gen.target.elts[0].id
                  and isinstance(dc.value, ast.Name) and dc.value.id == gen.target.elts[1].id and len(gen.ifs) == 1)
            if not ok:
                raise Unsupported('comprehension shape %s' % ast.unparse(stmt))
            pair = gen.target.elts[1].id
            for j in range(nk):
                keep = self.cond(gen.ifs[0], st, {'pair': pair, 'cnt': st.cnt[j], 'bkt': st.bkt[j]})
                st.pres[j] = z3.And(st.pres[j], keep)
            return
        raise Unsupported('statement %s' % ast.unparse(stmt)[:80])

    def var(self, prefix):
        self.fresh += 1
        return z3.Int('%s%d' % (prefix, self.fresh))

    def varb(self, prefix):
        self.fresh += 1
        return z3.Bool('%s%d' % (prefix, self.fresh))

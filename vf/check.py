"""Orchestrator: decide one property by discharging its obligations in parallel.

usage: python -m vf.check <ID> [--tier quick|thorough] [--only substr] [--jobs N]
       python -m vf.check --replay <path>
exit 0: held on everything explored (KNOWN-FINDING lines allowed)
exit 1: reproduced, unlisted violation (VIOLATION line printed)
exit 3: harness error (non-replaying counterexample, vacuous obligation, self-check failed)
"""
import sys
import os
import json
import time
import hashlib
import inspect
import argparse
import importlib
import subprocess
import concurrent.futures as cf

ROOT = os.path.dirname(os.path.dirname(os.path.abspath(__file__)))
VPY = os.path.join(ROOT, '.venv', 'bin', 'python')
REPLAY_PY = '/venv/bin/python'
EVID = os.path.join(ROOT, 'evidence')
REPLAYS = os.path.join(EVID, 'replays')
WORK = os.path.join(ROOT, '.work')


class Ob:
    """One obligation = one solver-decided harness function (optionally one partition of it)."""

    def __init__(self, function, timeout=60, pins=None, name=None, kind='crosshair',
                 min_witness=1, need_kinds=(), expect='confirmed', expect_clause=None):
        self.function = function
        self.timeout = timeout
        self.pins = dict(pins or {})
        self.kind = kind
        self.min_witness = min_witness
        self.need_kinds = tuple(need_kinds)
        self.expect_clause = expect_clause
        self.expect = expect          # 'counterexample' for sensitivity obligations run on an in-memory mutant
        if name is None:
            name = function
            if self.pins:
                name += '[' + ','.join('%s=%s' % kv for kv in sorted(self.pins.items())) + ']'
        self.name = name


def env():
    e = dict(os.environ)
    # VF_REPO (development aid, never used by the registered commands): analyse another checkout than the installed /repo
    e['PYTHONPATH'] = ROOT + (os.pathsep + os.environ['VF_REPO'] if os.environ.get('VF_REPO') else '')
    e['PYTHONDONTWRITEBYTECODE'] = '1'
    e['PYTHONHASHSEED'] = '0'
    return e


def run_worker(modname, ob, assume_not=()):
    cmd = [VPY, '-m', 'vf.worker' if ob.kind == 'crosshair' else 'vf.direct', modname, ob.function,
           str(ob.timeout), json.dumps(ob.pins), json.dumps(sorted(assume_not))]
    t0 = time.time()
    try:
        p = subprocess.run(cmd, cwd=ROOT, env=env(), capture_output=True, text=True,
                           timeout=ob.timeout * 1.5 + 90)
        res = None
        for line in p.stdout.splitlines():
            if line.startswith('RESULT '):
                res = json.loads(line[7:])
        if res is None:
            res = {'verdict': 'error', 'message': 'worker produced no result (rc=%s): %s' %
                   (p.returncode, (p.stderr or '')[-800:])}
    except subprocess.TimeoutExpired:
        res = {'verdict': 'inconclusive', 'message': 'worker killed at hard timeout'}
    res['obligation'] = ob.name
    res.setdefault('wall_s', round(time.time() - t0, 2))
    return res


def run_replay(path):
    p = subprocess.run([REPLAY_PY, '-m', 'vf.replay', path], cwd=ROOT, env=env(),
                       capture_output=True, text=True, timeout=600)
    out = None
    for line in p.stdout.splitlines():
        if line.startswith('REPLAY '):
            out = json.loads(line[7:])
    if out is None:
        out = {'reproduced': False, 'result': 'replay crashed: ' + (p.stderr or '')[-800:]}
    return out


def load_findings():
    path = os.path.join(ROOT, 'known_findings.json')
    if not os.path.exists(path):
        return []
    return json.load(open(path)).get('findings', [])


def match_finding(findings, prop, obname, clause):
    for f in findings:
        if f.get('status') != 'known' or f.get('property') != prop:
            continue
        m = f.get('match', {})
        if 'obligation_prefix' in m and not obname.startswith(m['obligation_prefix']):
            continue
        if 'failed_clause' in m and clause != m['failed_clause']:
            continue
        return f
    return None


def describe_targets(targets):
    out = []
    for dotted in targets:
        parts = dotted.split('.')
        obj = None
        for i in range(len(parts), 0, -1):
            try:
                obj = importlib.import_module('.'.join(parts[:i]))
                rest = parts[i:]
                break
            except ImportError:
                continue
        try:
            for a in rest:
                obj = inspect.getattr_static(obj, a) if inspect.isclass(obj) else getattr(obj, a)
            if isinstance(obj, (staticmethod, classmethod)):
                obj = obj.__func__
            if isinstance(obj, property):
                obj = obj.fget
            src, line = inspect.getsourcelines(obj)
            out.append({'function': dotted, 'file': inspect.getsourcefile(obj), 'line': line,
                        'sha1': hashlib.sha1(''.join(src).encode()).hexdigest()[:12]})
        except Exception as e:
            out.append({'function': dotted, 'missing': '%s: %s' % (type(e).__name__, e)})
    return out


def ensure_venv():
    if not os.path.exists(VPY):
        subprocess.run([os.path.join(ROOT, 'setup.sh')], check=True, stdout=subprocess.DEVNULL)


def do_replay_only(path):
    out = run_replay(path)
    print(json.dumps(out, indent=1))
    rec = json.load(open(path))
    if out['reproduced']:
        print('VIOLATION property=%s replay=%s' % (rec.get('property'), path))
        return 1
    print('replay did not reproduce')
    return 0


def main(argv=None):
    ap = argparse.ArgumentParser()
    ap.add_argument('prop', nargs='?')
    ap.add_argument('--tier', default=os.environ.get('VERIF_TIER') or 'quick')
    ap.add_argument('--only', default=None)
    ap.add_argument('--jobs', type=int, default=int(os.environ.get('VF_JOBS', '16')))
    ap.add_argument('--replay', default=None)
    ap.add_argument('--no-evidence', action='store_true')
    a = ap.parse_args(argv)
    ensure_venv()
    if a.replay:
        return do_replay_only(a.replay)
    prop, tier = a.prop, a.tier
    seed = int(os.environ.get('VERIF_SEED', '0') or 0)
    t0 = time.time()
    sys.path.insert(0, ROOT)
    modname = 'vf.harness.%s' % prop
    mod = importlib.import_module(modname)
    obs = mod.obligations(tier)
    if a.only:
        obs = [o for o in obs if a.only in o.name]
    findings = load_findings()
    os.makedirs(REPLAYS, exist_ok=True)
    # every recorded (not repaired) finding carries a concrete witness that is replayed on each run:
    # if it no longer fails the entry is stale and the check says so instead of silently suppressing
    stale = []
    for f in findings:
        if f.get('status') == 'known' and f.get('property') == prop and f.get('witness'):
            wpath = os.path.join(REPLAYS, '%s-witness.json' % prop)
            w = f['witness']
            json.dump({'property': prop, 'module': w['module'], 'function': w['function'], 'call_args': w['call_args'], 'pins': {}}, open(wpath, 'w'))
            rp = run_replay(wpath)
            os.remove(wpath)
            if not rp.get('reproduced') or rp.get('clause') != f.get('match', {}).get('failed_clause'):
                stale.append(f['what'])

    results = []
    with cf.ThreadPoolExecutor(max_workers=a.jobs) as ex:
        futs = {ex.submit(run_worker, modname, ob): ob for ob in obs}
        for fu in cf.as_completed(futs):
            results.append((futs[fu], fu.result()))
    results.sort(key=lambda r: r[0].name)

    violations, known, harness_errors, inconclusive, discharged = [], [], [], [], 0
    second_pass = []
    nrep = 0
    for ob, res in results:
        v = res['verdict']
        if ob.expect == 'counterexample':
            # sensitivity obligation: the machinery must REFUTE a deliberately broken in-memory variant
            if v == 'counterexample' and (ob.expect_clause is None or (res.get('fail') or [None])[0] == ob.expect_clause):
                discharged += 1
            elif v == 'inconclusive':
                inconclusive.append('%s: %s' % (ob.name, res.get('message')))
            else:
                harness_errors.append('%s: sensitivity check lost (verdict %s on the seeded in-memory mutant)' % (ob.name, v))
            continue
        if v == 'confirmed':
            if res.get('witness', 0) < ob.min_witness:
                harness_errors.append('%s: vacuous (confirmed but witness predicate reached on %d paths)'
                                      % (ob.name, res.get('witness', 0)))
            elif [k for k in ob.need_kinds if not (res.get('witness_kinds') or {}).get(k)]:
                harness_errors.append('%s: vacuous (no explored path reached witness kind(s) %s)' % (
                    ob.name, [k for k in ob.need_kinds if not (res.get('witness_kinds') or {}).get(k)]))
            else:
                discharged += 1
        elif v == 'counterexample':
            nrep += 1
            rpath = os.path.join(REPLAYS, '%s-%s-%d.json' % (prop, tier, nrep))
            rec = {'property': prop, 'obligation': ob.name, 'module': modname,
                   'function': res.get('replay_function', ob.function), 'pins': ob.pins,
                   'call_args': res.get('call_args', ''), 'engine_message': res.get('message')}
            json.dump(rec, open(rpath, 'w'), indent=1)
            rp = run_replay(rpath)
            rec['replay'] = rp
            json.dump(rec, open(rpath, 'w'), indent=1)
            res['replay'] = rp
            res['replay_path'] = rpath
            if not rp['reproduced']:
                harness_errors.append('%s: counterexample does not replay on the real code: %s'
                                      % (ob.name, res.get('message')))
                continue
            f = match_finding(findings, prop, ob.name, rp.get('clause'))
            if f is not None:
                known.append((ob, f, rp))
                second_pass.append((ob, f))
                os.remove(rpath)
            else:
                violations.append((ob, res, rpath))
        elif v in ('inconclusive',):
            inconclusive.append('%s: %s' % (ob.name, res.get('message')))
        elif v == 'vacuous':
            harness_errors.append('%s: unable to meet precondition' % ob.name)
        else:
            harness_errors.append('%s: %s %s' % (ob.name, res.get('message'), res.get('traceback', '')))

    # second pass: keep searching under the negated matcher of each known finding
    results2 = []
    if second_pass:
        with cf.ThreadPoolExecutor(max_workers=a.jobs) as ex:
            futs = {}
            for ob, f in second_pass:
                clauses = [g['match']['failed_clause'] for g in findings
                           if g.get('status') == 'known' and g.get('property') == prop
                           and 'failed_clause' in g.get('match', {})]
                futs[ex.submit(run_worker, modname, ob, clauses)] = (ob, clauses)
            for fu in cf.as_completed(futs):
                ob, clauses = futs[fu]
                res = fu.result()
                results2.append((ob, res))
                v = res['verdict']
                if v == 'confirmed':
                    discharged += 1
                elif v == 'counterexample':
                    nrep += 1
                    rpath = os.path.join(REPLAYS, '%s-%s-%d.json' % (prop, tier, nrep))
                    rec = {'property': prop, 'obligation': ob.name, 'module': modname,
                           'function': res.get('replay_function', ob.function), 'pins': ob.pins,
                           'assume_not': clauses,
                           'call_args': res.get('call_args', ''), 'engine_message': res.get('message')}
                    json.dump(rec, open(rpath, 'w'), indent=1)
                    rp = run_replay(rpath)
                    rec['replay'] = rp
                    json.dump(rec, open(rpath, 'w'), indent=1)
                    if rp['reproduced']:
                        violations.append((ob, res, rpath))
                    else:
                        harness_errors.append('%s (2nd pass): counterexample does not replay' % ob.name)
                elif v == 'inconclusive':
                    inconclusive.append('%s (2nd pass under known finding): %s' % (ob.name, res.get('message')))
                else:
                    harness_errors.append('%s (2nd pass): %s' % (ob.name, res.get('message')))

    wall = time.time() - t0
    allres = results + results2
    paths = sum(r.get('paths', 0) for _, r in allres)
    witness = sum(r.get('witness', 0) for _, r in allres)
    samples = []
    for ob, r in allres:
        for s in (r.get('samples') or [])[:2]:
            samples.append({'obligation': ob.name, 'path_structure': s})
        if len(samples) >= 12:
            break
    if not samples:
        samples = [{'obligation': ob.name, 'verdict': r['verdict']} for ob, r in allres[:5]]
    ev = {
        'property_id': prop, 'tier': tier, 'seed': seed, 'level': 'model_checking',
        'coverage': {
            'evaluations': paths, 'distinct_nontrivial': witness,
            'rule': 'one evaluation = one path explored by the symbolic executor for one obligation '
                    '(a class of inputs sharing all branch outcomes; every branch decision was decided by '
                    'z3); non-trivial = the path ran to the end of the harness and reached the '
                    "obligation's witness predicate; paths are distinct by construction of the path tree. "
                    'For direct solver obligations one evaluation = one solver query.',
            'exhaustive': bool(obs) and discharged == len(obs) + len(results2) and not inconclusive,
            'obligations': len(obs) + len(results2), 'discharged': discharged,
            'inconclusive': len(inconclusive), 'inconclusive_list': inconclusive[:20],
            'bounds': getattr(mod, 'BOUNDS', {}).get(tier, {}),
            'outside_claim': getattr(mod, 'OUT_OF_CLAIM', []),
            'functions_encoded': describe_targets(getattr(mod, 'TARGETS', [])),
            'stubs': getattr(mod, 'STUBS', []),
            'samples': samples,
            'solver': {'name': 'z3 %s via CrossHair 0.0.110 (per-path symbolic execution)' % _z3v(),
                       'time_s': round(sum(r.get('solver_s', 0) for _, r in allres), 2),
                       'queries': sum(r.get('solver_queries', 0) for _, r in allres)},
            'checker_cmd': './check %s %s' % (prop, tier),
            'per_obligation': [{'name': ob.name, 'verdict': r['verdict'], 'paths': r.get('paths', 0),
                                'witness_paths': r.get('witness', 0), 'solver_s': r.get('solver_s', 0),
                                'wall_s': r.get('wall_s')} for ob, r in allres],
            'known_findings_hit': [f['what'] for _, f, _ in known],
        },
        'assumptions': getattr(mod, 'ASSUMPTIONS', []),
        'wall_s': round(wall, 2),
        'violations': len(violations),
    }
    if harness_errors:
        ev['coverage']['harness_errors'] = harness_errors[:20]
    if not a.no_evidence and not a.only:
        os.makedirs(EVID, exist_ok=True)
        json.dump(ev, open(os.path.join(EVID, '%s.json' % prop), 'w'), indent=1)

    print('%s %s: %d obligations, %d discharged, %d inconclusive, %d paths (%d reached witness), '
          'solver %.1fs, wall %.1fs' % (prop, tier, ev['coverage']['obligations'], discharged,
                                         len(inconclusive), paths, witness,
                                         ev['coverage']['solver']['time_s'], wall))
    if os.environ.get('VF_TIMES'):
        for ob, r in sorted(allres, key=lambda x: -(x[1].get('wall_s') or 0))[:12]:
            print('TIME %6.1fs paths=%-6d %s' % (r.get('wall_s') or 0, r.get('paths', 0), ob.name))
    for s in inconclusive:
        print('INCONCLUSIVE %s' % s)
    seen = set()
    for ob, f, rp in known:
        if f['what'] not in seen:
            seen.add(f['what'])
            print('KNOWN-FINDING: property=%s %s' % (prop, f['what']))
    for w in stale:
        print('STALE-FINDING: property=%s the recorded witness no longer fails: %s' % (prop, w))
    for s in harness_errors:
        print('HARNESS-ERROR %s' % s)
    shown = {}
    for ob, res, rpath in violations:
        rp = res.get('replay') or {}
        key = rp.get('clause')
        shown[key] = shown.get(key, 0) + 1
        if shown[key] > 3 and len(violations) > 8:
            continue                      # same failing clause again: listed in the summary line below
        print('  %s: %s [%s: %s]' % (ob.name, (res.get('message') or '')[:300], rp.get('clause'), (rp.get('detail') or '')[:200]))
        print('VIOLATION property=%s replay=%s' % (prop, rpath))
    if violations:
        print('violations by failing clause: %s' % ', '.join('%s x%d' % kv for kv in sorted(shown.items(), key=str)))
    if violations:
        return 1
    if harness_errors:
        return 3
    return 0


def _z3v():
    try:
        out = subprocess.run([VPY, '-c', 'import z3; print(z3.get_version_string())'],
                             capture_output=True, text=True).stdout.strip()
        return out
    except Exception:
        return '?'


if __name__ == '__main__':
    sys.exit(main())

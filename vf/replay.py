"""Concrete replay of a counterexample on the real code, no symbolic machinery.

usage: /venv/bin/python -m vf.replay <replay.json>
exit 0 = the violation reproduces (harness returned False or raised), 2 = it does not.
Prints one JSON line (prefix REPLAY ).
"""
import sys
import json
import importlib
import traceback


def run(path):
    rec = json.load(open(path))
    assert 'crosshair' not in sys.modules
    from vf import rt
    rt.configure(pins=rec.get('pins') or {}, assume_not=rec.get('assume_not') or [])
    mod = importlib.import_module(rec['module'])
    fn = getattr(mod, rec['function'])

    def _cap(*a, **k):
        return a, k
    ns = dict(vars(mod))
    ns['_cap'] = _cap
    ns['float'] = float
    args, kwargs = eval('_cap(%s)' % rec['call_args'], ns)
    out = {'reproduced': False, 'result': None, 'clause': None, 'detail': None}
    try:
        r = fn(*args, **kwargs)
        out['result'] = repr(r)[:200]
        if r is False:
            out['reproduced'] = True
    except Exception as e:
        out['reproduced'] = True
        out['result'] = 'raised %s: %s' % (type(e).__name__, str(e)[:200])
        out['traceback'] = traceback.format_exc()[-1500:]
        if rt.STATE['fail'] is None:
            rt.STATE['fail'] = ('exception', out['result'])
    if rt.STATE['fail']:
        out['clause'], out['detail'] = rt.STATE['fail']
    assert 'crosshair' not in sys.modules
    return out


def main():
    out = run(sys.argv[1])
    sys.stdout.write('\nREPLAY ' + json.dumps(out) + '\n')
    sys.exit(0 if out['reproduced'] else 2)


if __name__ == '__main__':
    main()
